#!/bin/sh
# Build what every check needs from files on disk only (offline).
set -e
cd "$(dirname "$0")"
export CARGO_NET_OFFLINE=true
python3 - <<'PY'
import sys
sys.path.insert(0, ".")
from vf import kani, ucrate
print("vgen:", kani.vgen_exe())
print("u crate:", ucrate.crate())
PY
echo setup ok
