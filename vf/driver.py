"""Common flow of one check: jobs -> Kani -> classify -> replay counterexamples -> evidence -> exit code."""
import json
import os
import sys
import time

from . import kani

VERIF = kani.VERIF
KNOWN = os.path.join(VERIF, "known_findings.json")


def load_known(pid):
    try:
        data = json.load(open(KNOWN))
    except OSError:
        return []
    return [f for f in data.get("findings", []) if f.get("property") == pid and f.get("status") == "known"]


def decode_input(vals, nbytes):
    """First nbytes draws are the input bytes; if a length draw follows it is vals[nbytes]."""
    bs = bytes(v[0] if v else 0 for v in vals[:nbytes])
    return bs


class Check:
    def __init__(self, pid, tier, seed, level_rule, assumptions, functions_hint=None):
        self.pid = pid
        self.tier = tier
        self.seed = seed
        self.rule = level_rule
        self.assumptions = list(assumptions)
        self.functions_hint = functions_hint or []
        self.t0 = time.time()
        self.violations = []      # (harness, replay path, text)
        self.known_hits = []
        self.undecided = []
        self.notes = []

    # ----------------------------------------------------------------------------------
    def handle_failed(self, res, describe, pbs):
        """A FAILED harness: counterexamples (from concrete playback) are replayed natively, then classified."""
        job = res.job
        only_unwind = all(".unwind" in f["name"] or "recursion" in f["name"] for f in res.failed_checks)
        # counterexamples of failed checks first; cover witnesses are tried as well (Kani does not always
        # print a test for a failed panic check; any input that fails natively is a valid demonstration)
        cands = [(k, d, v) for (k, d, v) in pbs if k != "cover"] + [(k, d, v) for (k, d, v) in pbs if k == "cover"]
        if not cands:
            self.undecided.append((job.jid, "FAILED but no counterexample could be extracted: "
                                   + "; ".join(f["desc"] for f in res.failed_checks[:4])))
            return
        seen = {}
        reproduced = False
        k = 0
        for kind, desc, vals in cands:
            key = json.dumps(vals)
            if key in seen:
                continue
            outs = {}
            ok = False
            native_msgs = []
            for rel in (False, True):
                rc, out = kani.replay(job.crate, job.harness, vals, release=rel)
                outs["release" if rel else "dev"] = {"rc": rc, "out": out[-2000:]}
                if rc in (1, 101, 124, 134, 139, -6, -11):
                    ok = True
                    for line in out.splitlines():
                        if ": FAILED " in line or ": PANIC " in line:
                            msg = line.split(": ", 1)[1]
                            if msg not in native_msgs:
                                native_msgs.append(msg)
                    if rc == 124:
                        native_msgs.append("did not return (watchdog)")
            seen[key] = ok
            info = describe(job, vals) if describe else {}
            if ok:
                reproduced = True
                if self.match_known(job, vals, info):
                    continue
                k += 1
                path = self.write_replay(job, desc, vals, info, outs, res, k)
                self.violations.append((job.jid, path, "; ".join(native_msgs) or desc))
            elif kind != "cover":
                self.notes.append(f"{job.jid}: counterexample for '{desc}' did not reproduce natively: "
                                  f"{outs['dev']['out'][-300:]}")
        if not reproduced:
            why = "unwinding assertion only (bound problem or termination candidate that returned natively)" \
                if only_unwind else "counterexample(s) did not reproduce natively (encoding or stub issue)"
            self.undecided.append((job.jid, why + ": " + "; ".join(f["desc"] for f in res.failed_checks[:4])))

    def match_known(self, job, vals, info):
        for f in load_known(self.pid):
            if f.get("role") == job.meta.get("role", job.harness) and f.get("vals") == vals:
                self.known_hits.append((f, job.jid))
                return True
        return False

    def write_replay(self, job, desc, vals, info, outs, res, k=1):
        d = kani.ensure_dir(os.path.join(os.environ.get("VERIF_REPLAY_DIR") or os.path.join(VERIF, "replays"), self.pid))
        path = os.path.join(d, f"{job.jid}.{k}.json")
        json.dump({
            "property": self.pid, "job": job.jid, "harness": job.harness,
            "crate": os.path.basename(job.crate), "failed_check": desc,
            "vals": vals, "decoded": info, "desc": job.desc, "bound": job.bound,
            "native": outs, "kani_failed_checks": res.failed_checks[:10],
            "replay_cmd": f"./check {self.pid} --replay {path}",
        }, open(path, "w"), indent=1)
        return path

    # ----------------------------------------------------------------------------------
    def finish(self, results, describe=None, extra_cov=None):
        ok_jobs = []
        # counterexamples: extracted inside the pool for FAILED harnesses (kani.run_jobs); a pinned known-finding
        # harness has no symbolic draws, its input is replayed directly
        pbs_by_jid = {}
        for r in results:
            if r.status == "failed" and r.job.expect == "known":
                pbs_by_jid[r.job.jid] = [("assertion", "pinned known-finding input", r.job.meta.get("pinned_vals", []))]
            elif r.status == "failed" and r.job.expect != "fail":
                pbs_by_jid[r.job.jid] = r.playback if r.playback is not None else kani.extract_playback(r.job)
        for r in results:
            if r.job.expect == "known" and r.status == "successful":
                self.notes.append(f"{r.job.jid}: the pinned known finding no longer fails - the entry in known_findings.json is stale")
        for res in results:
            job = res.job
            if job.expect == "fail":
                # canary / guard-necessity witness: must be FAILED
                if res.status == "failed":
                    ok_jobs.append(res)
                elif res.status == "successful":
                    self.undecided.append((job.jid, "canary harness unexpectedly SUCCESSFUL (pipeline cannot fail?)"))
                elif job.required:
                    self.undecided.append((job.jid, "canary undecided: " + res.reason))
                continue
            if res.status == "successful":
                if job.expect != "known":
                    ok_jobs.append(res)
            elif res.status == "failed":
                self.handle_failed(res, describe, pbs_by_jid.get(job.jid, []))
            else:
                if job.required:
                    self.undecided.append((job.jid, res.reason))
                else:
                    self.notes.append(f"stretch harness {job.jid} undecided: {res.reason}")

        wall = time.time() - self.t0
        checks = sum(r.checks for r in results)
        discharged = sum(r.checks - len(r.failed_checks) for r in results if r.status in ("successful", "failed"))
        funcs = sorted({f for r in results for f in r.functions})
        samples = []
        for r in results[:60]:
            samples.append({
                "harness": r.job.jid, "what": r.job.desc, "bound": r.job.bound, "status": r.status,
                "reason": r.reason, "cbmc_checks": r.checks, "covers": f"{r.covers_sat}/{r.covers_total}", "covers_unsatisfied": r.covers_unsat,
                "kani_s": round(r.verif_time, 1), "wall_s": round(r.wall, 1), "peak_rss_mb": r.peak_rss_mb,
                "solver": r.vcc, "expect": r.job.expect,
            })
        cov = {
            "evaluations": len(results),
            "distinct_nontrivial": len({r.job.jid for r in ok_jobs
                                        if not [c for c in r.covers_unsat if c not in r.job.meta.get("impossible_covers", ())]}),
            "rule": self.rule,
            "samples": samples,
            "harnesses_total": len(results),
            "harnesses_successful": len(ok_jobs),
            "harnesses_successful_every_possible_cover_witness_satisfied": len([r for r in ok_jobs
                if not [c for c in r.covers_unsat if c not in r.job.meta.get("impossible_covers", ())]]),
            "queries_total": checks,
            "queries_discharged": discharged,
            "kani_seconds_total": round(sum(r.verif_time for r in results), 1),
            "functions_encoded": funcs or self.functions_hint,
            "undecided": [{"harness": a, "reason": b} for a, b in self.undecided],
            "notes": self.notes,
            "known_findings_hit": [f["key"] for f, _ in self.known_hits],
            "exhaustive": False,
            "explanation": "Every harness is decided by CBMC over all values of its symbolic variables inside the "
                           "stated bound (unwinding assertions on); nothing is claimed outside the bounds listed "
                           "per sample.",
        }
        if extra_cov:
            cov.update(extra_cov)
        ev = {
            "property_id": self.pid, "tier": self.tier, "seed": self.seed, "level": "model_checking",
            "coverage": cov, "assumptions": self.assumptions, "wall_s": round(wall, 1),
            "violations": len(self.violations),
        }
        evdir = os.environ.get("VERIF_EVIDENCE_DIR") or os.path.join(VERIF, "evidence")
        kani.ensure_dir(evdir)
        json.dump(ev, open(os.path.join(evdir, self.pid + ".json"), "w"), indent=1)

        for f, jid in self.known_hits:
            print(f"KNOWN-FINDING: property={self.pid} {f['key']}: {f['what']}")
        for jid, path, desc in self.violations:
            print(f"VIOLATION property={self.pid} replay={path}")
            print(f"  harness {jid}: {desc}")
        for n in self.notes:
            print("note:", n)
        if self.violations:
            return 1
        if not ok_jobs and not self.known_hits and not self.undecided:
            self.undecided.append(("-", "no harness of this run was decided"))
        if self.undecided:
            for jid, why in self.undecided:
                print(f"UNDECIDED property={self.pid} harness={jid}: {why}")
            return 2
        print(f"OK property={self.pid} tier={self.tier}: {len(ok_jobs)}/{len(results)} harnesses decided, "
              f"{discharged} CBMC checks discharged, {wall:.0f}s")
        return 0
