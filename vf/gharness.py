"""G harnesses: family grammar -> the tree's own generator -> Kani harness against the reference.

One crate per grammar.  The generated code is included verbatim inside `#[forbid(unsafe_code)] mod g`.
"""
import hashlib
import os
from dataclasses import dataclass, field
from typing import Optional

from . import crates, gram as G, kani, refgen


@dataclass
class Spec:
    name: str                         # crate / grammar name (unique)
    grammar: G.Grammar
    root: str                         # exported rule under test
    n: int = 3                        # input bytes
    partition: bool = False           # one harness per concrete length
    accept: bool = True               # C01: Ok <=> reference matches
    tree: bool = True                 # C02/C09: tree equals the expected arena
    err: str = "none"                 # C10: none | exact (no memo/leftrec) | member (memo/leftrec)
    boundary: bool = True             # C04: reported offsets on char boundaries
    nn: int = 8
    ne: int = 6
    user_rs: str = ""                 # extra Rust: `pub mod user { ... }` contents
    covers: list = field(default_factory=list)   # (rust bool expr, message); vars: s,b,len,real,exp,cx
    extra_checks: list = field(default_factory=list)   # (rust bool expr, message)
    unwind: Optional[int] = None
    ascii_only: bool = False          # restrict the input alphabet to ASCII (stated in the bound)
    alphabet: Optional[str] = None    # restricted alphabet: each byte position drawn from these characters
    expect_reject: bool = False       # generator must reject this grammar (guard probes)
    leftrec_unwind: dict = field(default_factory=dict)   # rule -> recursion bound
    note: str = ""
    optional_covers: list = field(default_factory=list)
    heavy: bool = False
    pre_draw: str = ""             # Rust statements drawing user-function behaviour (after the input draw)
    post_input: str = ""           # Rust statements after `s`/`b` exist (assumptions tying tables to the input)
    ctx: bool = False              # parse with a user context (crate::user::Ctx)


def input_prelude(spec: Spec, fixed_len):
    # a partitioned harness (one concrete length) draws exactly that many bytes
    n = spec.n if fixed_len is None else fixed_len
    fl = f"Some({fixed_len})" if fixed_len is not None else "None"
    s = f"    let (bytes, len) = crate::vrt::draw_input::<{n}, S>(src, {fl});\n"
    s += spec.pre_draw
    if spec.ascii_only:
        s += "    { let mut k = 0; while k < len { src.assume(bytes[k] < 0x80); k += 1; } }\n"
    if spec.alphabet:
        alts = " || ".join(f"bytes[k] == 0x{ord(c):02x}" for c in spec.alphabet)
        s += f"    {{ let mut k = 0; while k < len {{ src.assume({alts}); k += 1; }} }}\n"
    s += "    let s = crate::vrt::as_input(src, &bytes, len);\n    let b = &bytes[..len];\n"
    s += spec.post_input
    return s


def harness_body(spec: Spec, fname, fixed_len):
    root = spec.root
    g = "crate::g"
    lines = [f"pub fn {fname}<S: crate::vrt::Src>(src: &mut S) {{",
             input_prelude(spec, fixed_len),
             "    let mut cx = crate::rf_g::Cx::new();",
             f"    let exp = crate::rf_g::ref_{root}(&mut cx, s, 0);",
             (f"    let mut uctx = crate::user::Ctx::default();\n    let real = <{g}::{G.ident(root)} as peginator::PegParserAdvanced<&mut crate::user::Ctx>>::parse_advanced::<peginator::NoopTracer>(s, &peginator::ParseSettings::default(), &mut uctx);"
              if spec.ctx else
              f"    let real = <{g}::{G.ident(root)} as peginator::PegParser>::parse(s);"),
             '    vcover!(src, exp.is_some(), "reference: input accepted");',
             '    vcover!(src, exp.is_none(), "reference: input rejected");']
    for cond, msg in spec.covers:
        lines.append(f'    vcover!(src, {cond}, "{msg}");')
    lines.append('    vcheck!(src, !cx.model_error, "model: reference arena overflow or ill-formed family grammar");')
    if spec.accept:
        lines.append('    vcheck!(src, real.is_ok() == exp.is_some(), "C01: parse succeeds exactly when the rule, read as a PEG at offset 0, matches");')
    if spec.tree:
        lines.append(f"""    if let (Ok(t), Some((_end, v))) = (&real, exp) {{
        vcheck!(src, crate::rf_g::cmp_{root}(t, &cx, b, v), "C02/C09: returned tree equals the matches on the successful path (fields, order, variants, slices, positions)");
    }}""")
    if spec.err != "none" or spec.boundary:
        lines.append("    if let (Err(e), None) = (&real, exp) {")
        if spec.boundary:
            lines.append('        vcheck!(src, crate::vrt::is_boundary(b, e.position), "C04/C10: reported error position is a character boundary inside the input");')
        if spec.err == "exact":
            lines.append('        vcheck!(src, cx.far_set && e.position == cx.far_pos, "C10: reported position is the furthest offset at which a match attempt failed");')
            lines.append('        vcheck!(src, (crate::rf::class_of(&e.specifics) & cx.far_classes) != 0, "C10: reported detail names an attempt that failed at that offset");')
        elif spec.err == "member":
            lines.append('        vcheck!(src, e.position < 16 && (cx.all_offsets >> e.position) & 1 == 1, "C10: reported position is an offset at which some match attempt really failed");')
            lines.append('        vcheck!(src, !matches!(e.specifics, peginator::ParseErrorSpecifics::LeftRecursionSentinel), "C10: the internal left-recursion sentinel is never reported");')
        lines.append("    }")
    for cond, msg in spec.extra_checks:
        lines.append(f'    vcheck!(src, {cond}, "{msg}");')
    lines.append('    vcover!(src, true, "harness reaches the end of its assertions");')
    lines.append("}")
    return "\n".join(lines) + "\n"


def default_unwind(spec):
    return spec.unwind or (spec.n + 2)


def build(spec: Spec):
    """Generates code with the tree's generator, emits the reference and the harness crate.
    Returns (crate_dir or None, entries[(harness, unwind, call)], info)."""
    G.check_wellformed(spec.grammar)
    text = G.p_grammar(spec.grammar)
    gen_dir = kani.ensure_dir(os.path.join(kani.WORK, "gen"))
    dst = os.path.join(gen_dir, spec.name + ".rs")
    res = kani.generate([(text, dst, spec.grammar.user_ctx)])[dst]
    info = {"grammar": text, "generator_ok": res[0], "generator_msg": res[1].split(" | Stack backtrace")[0][:400]}
    if not res[0]:
        return None, [], info
    info["generated_sha"] = hashlib.sha256(open(dst, "rb").read()).hexdigest()[:16]
    ref = refgen.RefEmitter(spec.grammar, "crate::g", nn=spec.nn, ne=spec.ne, track_nodes=spec.tree).module("rf_g")
    entries = []
    bodies = []
    u = default_unwind(spec)
    if spec.partition:
        for l in range(spec.n + 1):
            fn = f"h_len{l}"
            bodies.append(harness_body(spec, fn, l))
            entries.append((f"{spec.name}_len{l}", (spec.unwind or (l + 2)), f"{fn}(src)"))
    else:
        bodies.append(harness_body(spec, "h_all", None))
        entries.append((f"{spec.name}_all", u, "h_all(src)"))
    body = (f'#[forbid(unsafe_code)]\n#[allow(non_camel_case_types, non_snake_case, unused, clippy::all)]\npub mod g {{\n    include!("{dst}");\n}}\n'
            + "#[allow(unused, non_snake_case)]\npub mod user {\n" + spec.user_rs + "\n}\n"
            + "pub fn fake_format(_a: std::fmt::Arguments<'_>) -> String { String::with_capacity(1) }\n"
            + ref + "\n".join(bodies))
    d = crates.assemble(spec.name, body, entries)
    return d, entries, info


def jobs_for(spec: Spec, timeout=900, mem_gb=14, weight=1, required=True, role=None):
    d, entries, info = build(spec)
    jobs = []
    if d is None:
        return jobs, info
    lr_args = []
    for (h, u, call) in entries:
        nbytes = int(h.rsplit("len", 1)[1]) if spec.partition else spec.n
        bound = {"input_bytes": (f"exactly {h.rsplit('len', 1)[1]}" if spec.partition else f"<={spec.n}"),
                 "alphabet": "ASCII" if spec.ascii_only else (spec.alphabet or "all UTF-8"),
                 "unwind": u, "grammar": info["grammar"]}
        jobs.append(kani.Job(jid=h, crate=d, harness=h, desc=(spec.note + " | " if spec.note else "") + f"rule {spec.root} of: " + info["grammar"].replace("\n", " "),
                             bound=bound, timeout=timeout, mem_gb=mem_gb, weight=weight, required=required,
                             meta={"role": role or spec.name, "nbytes": nbytes, "spec": spec.name,
                                   "unwindset": [(f"{len('parse_' + r)}parse_{r}", k) for r, k in spec.leftrec_unwind.items()]
                                   + [(f"{len('ref_' + r)}ref_{r}", k) for r, k in spec.leftrec_unwind.items()],
                                   "generated_sha": info.get("generated_sha"),
                                   # a family grammar may accept (or reject) every input inside the bound; these two
                                   # witnesses are informational, "reaches the end" is the mandatory vacuity witness
                                   "optional_covers": ["reference: input accepted", "reference: input rejected"]
                                   + list(spec.optional_covers)}))
    return jobs, info
