"""Kani/CBMC job runner: build harness crates, run them in a pool, classify, replay.

Nothing in here decides a property by itself: the verdict of a job is what CBMC answered
for the compiled harness (SUCCESSFUL / FAILED per check), read from Kani's log.
"""
import json
import os
import re
import resource
import shutil
import subprocess
import sys
import threading
import time
from concurrent.futures import ThreadPoolExecutor
from dataclasses import dataclass, field

VERIF = os.path.dirname(os.path.dirname(os.path.abspath(__file__)))
REPO = os.environ.get("VERIF_REPO", "/repo")
WORK = os.environ.get("VERIF_WORK") or os.path.join(VERIF, ".work")
RT = os.path.join(VERIF, "rt", "vrt.rs")
GUARD = "peginator_verif"

ENV = dict(os.environ)
ENV["CARGO_NET_OFFLINE"] = "true"
ENV["RUSTFLAGS"] = f"--cfg {GUARD}"
ENV.pop("RUSTUP_TOOLCHAIN", None)


@dataclass
class Job:
    """One `cargo kani --harness` run."""
    jid: str                      # unique id within a check run
    crate: str                    # crate directory
    harness: str                  # #[kani::proof] function name
    desc: str = ""                # human description (grammar text, bound)
    bound: dict = field(default_factory=dict)
    timeout: int = 900            # seconds (wall) for cargo kani
    mem_gb: int = 14              # RLIMIT_AS for the whole process tree
    cbmc_args: list = field(default_factory=list)
    required: bool = True         # False: stretch harness (undecided does not fail the check)
    expect: str = "pass"          # "pass" | "fail" (canary / guard witness: must come back FAILED)
    weight: int = 1               # pool slots taken (heavy jobs take more)
    meta: dict = field(default_factory=dict)


@dataclass
class Result:
    job: Job
    status: str                   # successful | failed | undecided
    reason: str = ""
    checks: int = 0
    failed_checks: list = field(default_factory=list)   # dicts: name, desc, loc, func
    covers_total: int = 0
    covers_sat: int = 0
    covers_unsat: list = field(default_factory=list)
    verif_time: float = 0.0
    wall: float = 0.0
    peak_rss_mb: int = 0
    log: str = ""
    functions: list = field(default_factory=list)       # /repo functions seen in checks
    vcc: dict = field(default_factory=dict)
    playback: list = None


def ensure_dir(p):
    os.makedirs(p, exist_ok=True)
    return p


def write_if_changed(path, content):
    ensure_dir(os.path.dirname(path))
    try:
        if open(path).read() == content:
            return
    except OSError:
        pass
    with open(path, "w") as f:
        f.write(content)


def lockfile_for(crate_dir, with_codegen=False):
    """Kani needs a Cargo.lock next to the manifest (offline, no resolution against an index)."""
    src = os.path.join(REPO, "Cargo.lock")
    if not os.path.exists(src):
        src = os.path.join(VERIF, "rt", "Cargo.lock.repo")
    shutil.copy(src, os.path.join(crate_dir, "Cargo.lock"))


def write_crate(name, files, deps_codegen=False, bin_main=True):
    """files: {relative path: content}.  Returns the crate dir."""
    d = ensure_dir(os.path.join(WORK, "crates", name))
    dep = f'peginator = {{ path = "{REPO}/runtime", default-features = false }}\n'
    if deps_codegen:
        dep += f'peginator_codegen = {{ path = "{REPO}/codegen" }}\n'
    toml = f"""[package]
name = "{name}"
version = "0.1.0"
edition = "2021"
[workspace]
[lib]
path = "src/lib.rs"
"""
    if bin_main:
        toml += f"""[[bin]]
name = "replay"
path = "src/main.rs"
"""
    toml += f"""[dependencies]
{dep}
[lints.rust]
unexpected_cfgs = {{ level = "allow", check-cfg = ['cfg(kani)', 'cfg({GUARD})'] }}
[profile.dev]
debug = false
[profile.release]
debug = false
"""
    write_if_changed(os.path.join(d, "Cargo.toml"), toml)
    for rel, content in files.items():
        write_if_changed(os.path.join(d, rel), content)
    lockfile_for(d)
    return d


# ------------------------------------------------------------------------------------------
# running

def _limits(mem_gb):
    def f():
        os.setsid()
        lim = mem_gb * (1 << 30)
        resource.setrlimit(resource.RLIMIT_AS, (lim, lim))
    return f


def _tree_rss_kb(pid):
    """Sum of RSS over the process group (best effort)."""
    total = 0
    try:
        out = subprocess.run(["ps", "-eo", "pgid,rss"], capture_output=True, text=True).stdout
        for line in out.splitlines()[1:]:
            a = line.split()
            if len(a) == 2 and a[0] == str(pid):
                total += int(a[1])
    except Exception:
        pass
    return total


def run_cmd_limited(cmd, cwd, log_path, timeout, mem_gb, env=None):
    """Run cmd, own process group, RLIMIT_AS, wall timeout.  Returns (rc|None on timeout, wall, peak_rss_mb)."""
    t0 = time.time()
    peak = 0
    with open(log_path, "w") as lf:
        p = subprocess.Popen(cmd, cwd=cwd, stdout=lf, stderr=subprocess.STDOUT,
                             env=env or ENV, preexec_fn=_limits(mem_gb))
        rc = None
        while True:
            try:
                rc = p.wait(timeout=5)
                break
            except subprocess.TimeoutExpired:
                peak = max(peak, _tree_rss_kb(p.pid))
                if peak > mem_gb * 1024 * 1024:
                    _kill_group(p.pid)
                    p.wait()
                    rc = -9
                    with open(log_path, "a") as lf2:
                        lf2.write("\nVERIF-RUNNER: killed, resident memory above cap\n")
                    break
                if time.time() - t0 > timeout:
                    _kill_group(p.pid)
                    p.wait()
                    rc = None
                    break
    return rc, time.time() - t0, peak // 1024


def _kill_group(pgid):
    import signal
    try:
        os.killpg(pgid, signal.SIGKILL)
    except ProcessLookupError:
        pass


CHECK_RE = re.compile(
    r"^Check (\d+): (.+)\n\t - Status: (\w+)\n\t - Description: \"(.*)\"\n(?:\t - Location: (.*)\n)?",
    re.M)


def parse_log(text):
    """Read Kani's regular output."""
    r = {"verdict": None, "checks": 0, "failed": [], "covers_total": 0, "covers_sat": 0,
         "covers_unsat": [], "time": 0.0, "functions": set(), "errors": False, "vcc": {}}
    for m in CHECK_RE.finditer(text):
        num, name, status, desc, loc = m.groups()
        loc = loc or ""
        func = ""
        mm = re.search(r" in function (.*)$", loc)
        if mm:
            func = mm.group(1)
        if ".cover." in name or status in ("SATISFIED", "UNSATISFIABLE"):
            r["covers_total"] += 1
            if status == "SATISFIED":
                r["covers_sat"] += 1
            else:
                r["covers_unsat"].append(desc.strip('"'))
            continue
        r["checks"] += 1
        if "/repo/" in loc or loc.startswith("../../repo/") or "repo/runtime" in loc or "repo/codegen" in loc:
            if func:
                r["functions"].add(func)
        if status == "FAILURE":
            r["failed"].append({"name": name, "desc": desc.strip('"'), "loc": loc, "func": func})
        elif status == "ERROR":
            r["errors"] = True
        elif status == "UNDETERMINED":
            r["failed"].append({"name": name, "desc": "UNDETERMINED: " + desc.strip('"'), "loc": loc,
                                "func": func, "undetermined": True})
    if "VERIFICATION:- SUCCESSFUL" in text:
        r["verdict"] = "successful"
    elif "VERIFICATION:- FAILED" in text:
        r["verdict"] = "failed"
    m = re.search(r"Verification Time: ([0-9.]+)s", text)
    if m:
        r["time"] = float(m.group(1))
    m = re.search(r"Generated (\d+) VCC\(s\), (\d+) remaining after simplification", text)
    if m:
        r["vcc"] = {"generated": int(m.group(1)), "remaining": int(m.group(2))}
    m = re.search(r"(\d+) variables, (\d+) clauses", text)
    if m:
        r["vcc"].update({"variables": int(m.group(1)), "clauses": int(m.group(2))})
    m = re.search(r"Runtime Symex: ([0-9.]+)s", text)
    if m:
        r["vcc"]["symex_s"] = float(m.group(1))
    m = re.search(r"Runtime Solver: ([0-9.]+)s", text)
    if m:
        r["vcc"]["solver_s"] = float(m.group(1))
    r["functions"] = sorted(r["functions"])
    return r


def kani_cmd(job, target_dir, playback=False):
    cmd = ["cargo", "kani", "-Z", "stubbing", "-Z", "unstable-options",
           "--target-dir", target_dir, "--harness", job.harness, "--exact"]
    if playback:
        cmd += ["-Z", "concrete-playback", "--concrete-playback=print"]
    if job.cbmc_args:
        cmd += ["--cbmc-args"] + list(job.cbmc_args)
    return cmd


def classify(job, rc, text):
    p = parse_log(text)
    res = Result(job=job, status="undecided")
    res.checks = p["checks"]
    res.failed_checks = p["failed"]
    res.covers_total = p["covers_total"]
    res.covers_sat = p["covers_sat"]
    res.covers_unsat = p["covers_unsat"]
    res.verif_time = p["time"]
    res.functions = p["functions"]
    res.vcc = p["vcc"]
    if rc is None:
        res.reason = f"timeout after {job.timeout}s"
        return res
    if "VERIF-RUNNER: killed" in text:
        res.reason = "memory cap exceeded"
        return res
    if p["verdict"] is None:
        if re.search(r"error(\[E\d+\])?:", text):
            res.reason = "build error (rustc/kani): " + _first_error(text)
        else:
            res.reason = f"no verdict in log (rc={rc})"
        return res
    if p["errors"] or re.search(r"out of memory|std::bad_alloc|Out of memory|SAT checker ran out of memory", text, re.I):
        res.reason = "CBMC error / out of memory"
        return res
    if p["verdict"] == "successful":
        missing = [c for c in p["covers_unsat"] if c not in job.meta.get("optional_covers", ())]
        if missing:
            res.status = "undecided"
            res.reason = "vacuous: cover(s) not satisfied: " + "; ".join(missing)
            return res
        res.status = "successful"
        return res
    # FAILED
    if not p["failed"]:
        res.reason = "FAILED without a failed check (treated as undecided)"
        return res
    if any(f.get("undetermined") for f in p["failed"]):
        real = [f for f in p["failed"] if not f.get("undetermined")]
        if not real:
            res.reason = "checks UNDETERMINED (unwinding bound too small or unsupported construct)"
            return res
    res.status = "failed"
    return res


def _first_error(text):
    for line in text.splitlines():
        if re.match(r"\s*error", line):
            return line.strip()[:300]
    return ""


def resolve_unwindset(job, td):
    """Per-function recursion bounds (@leftrec rules): the goto identifiers are read from the harness' goto binary
    after a codegen-only pass.  job.meta["unwindset"] = [(v0-mangled name fragment, e.g. "7parse_E", bound)]."""
    wanted = job.meta.get("unwindset")
    if not wanted:
        return True
    log = os.path.join(WORK, "logs", job.jid + ".codegen.log")
    cmd = ["cargo", "kani", "-Z", "stubbing", "-Z", "unstable-options", "--target-dir", td,
           "--harness", job.harness, "--exact", "--only-codegen"]
    rc, wall, peak = run_cmd_limited(cmd, job.crate, log, 600, job.mem_gb)
    outs = []
    for root, dirs, files in os.walk(td):
        for f in files:
            if f.endswith(job.harness + ".out"):
                outs.append(os.path.join(root, f))
    if not outs:
        return False
    syms = subprocess.run(["strings", outs[0]], capture_output=True, text=True).stdout.splitlines()
    args = []
    for frag, k in wanted:
        ids = sorted({s.lstrip("%\'") for s in syms if frag in s and re.fullmatch(r"[%']?_R[A-Za-z0-9_]+", s)
                      and "NC" not in s and "::" not in s})
        if not ids:
            return False
        for i in ids:
            args.append(f"{i}:{k}")
    job.cbmc_args = list(job.cbmc_args) + ["--unwindset", ",".join(args)]
    job.bound = dict(job.bound, recursion_unwindset=[f"{f}:{k}" for f, k in wanted])
    return True


def run_job(job, keep_target=False):
    td = os.path.join(WORK, "t", job.jid)
    logdir = ensure_dir(os.path.join(WORK, "logs"))
    log = os.path.join(logdir, job.jid + ".log")
    if os.path.exists(td):
        shutil.rmtree(td, ignore_errors=True)
    if not resolve_unwindset(job, td):
        res = Result(job=job, status="undecided", reason="could not resolve the goto identifiers for the per-rule recursion bound")
        res.log = log
        return res
    rc, wall, peak = run_cmd_limited(kani_cmd(job, td), job.crate, log, job.timeout, job.mem_gb)
    text = open(log, errors="replace").read()
    res = classify(job, rc, text)
    res.wall = wall
    res.peak_rss_mb = peak
    res.log = log
    if not keep_target:
        shutil.rmtree(td, ignore_errors=True)
    return res


class Pool:
    """Weighted pool: at most `slots` weight units at once."""

    def __init__(self, slots):
        self.slots = slots
        self.used = 0
        self.cv = threading.Condition()

    def acquire(self, w):
        w = min(w, self.slots)
        with self.cv:
            while self.used + w > self.slots:
                self.cv.wait()
            self.used += w
        return w

    def release(self, w):
        with self.cv:
            self.used -= w
            self.cv.notify_all()


def run_jobs(jobs, slots=14, progress=True):
    if not jobs:
        return []
    pool = Pool(slots)
    results = [None] * len(jobs)
    order = sorted(range(len(jobs)), key=lambda i: -jobs[i].weight * 100000 - jobs[i].timeout)

    def work(i):
        j = jobs[i]
        w = pool.acquire(j.weight)
        try:
            r = run_job(j)
            if r.status == "failed" and j.expect == "pass":
                # counterexample extraction right away (a second Kani run), while the other jobs keep running
                r.playback = extract_playback(j)
        finally:
            pool.release(w)
        results[i] = r
        if progress:
            print(f"  [{j.jid}] {r.status}{' ('+r.reason+')' if r.reason else ''} "
                  f"checks={r.checks} covers={r.covers_sat}/{r.covers_total} "
                  f"{r.wall:.0f}s rss={r.peak_rss_mb}MB", flush=True)
        return r

    with ThreadPoolExecutor(max_workers=max(4, slots) + 4) as ex:
        list(ex.map(work, order))
    return results


# ------------------------------------------------------------------------------------------
# counterexamples

PLAYBACK_RE = re.compile(
    r"/// Check for `(\w+)`: \"(.*?)\"\n(?:.*\n)*?fn kani_concrete_playback_\w+\(\) \{\n\s*let concrete_vals: Vec<Vec<u8>> = vec!\[\n((?:.*\n)*?)\s*\];",
    re.M)


def extract_playback(job):
    """Re-run a failed job with concrete playback; returns list of (kind, description, [bytes...])."""
    td = os.path.join(WORK, "t", job.jid + "_pb")
    log = os.path.join(WORK, "logs", job.jid + ".playback.log")
    # trace generation needs noticeably more memory than the verdict run (seen: every check "Status: ERROR" at the
    # verdict run's limit), so the playback run gets twice the budget
    rc, wall, peak = run_cmd_limited(kani_cmd(job, td, playback=True), job.crate, log,
                                     job.timeout * 3, max(job.mem_gb * 2, 28))
    shutil.rmtree(td, ignore_errors=True)
    text = open(log, errors="replace").read()
    out = []
    for m in PLAYBACK_RE.finditer(text):
        kind, desc, body = m.groups()
        vals = []
        for line in body.splitlines():
            mm = re.match(r"\s*vec!\[(.*)\],?\s*$", line)
            if mm:
                s = mm.group(1).strip()
                vals.append([int(x) for x in s.split(",") if x.strip()] if s else [])
        out.append((kind, desc.strip('"'), vals))
    return out


def vals_to_arg(vals):
    return ",".join("".join(f"{b:02x}" for b in v) for v in vals)


_build_lock = threading.Lock()
_built = {}


def build_replay(crate, release=False):
    """Native build of the crate's replay binary (same sources, same /repo, guard on)."""
    key = (crate, release)
    with _build_lock:
        if key in _built:
            return _built[key]
        td = os.path.join(WORK, "nt", os.path.basename(crate))
        cmd = ["cargo", "build", "--offline", "--bin", "replay", "--target-dir", td]
        if release:
            cmd.append("--release")
        p = subprocess.run(cmd, cwd=crate, env=ENV, capture_output=True, text=True)
        if p.returncode != 0:
            _built[key] = (None, p.stderr[-3000:])
        else:
            _built[key] = (os.path.join(td, "release" if release else "debug", "replay"), "")
        return _built[key]


def replay(crate, harness, vals, release=False, timeout=60):
    """Returns (rc, stdout): rc 0 pass, 1 fail/panic reproduced, 3 assumption violated, 124 timeout."""
    exe, err = build_replay(crate, release)
    if exe is None:
        return 99, "native build failed: " + err
    try:
        p = subprocess.run([exe, harness, vals_to_arg(vals)], capture_output=True, text=True,
                           timeout=timeout)
        return p.returncode, p.stdout + p.stderr
    except subprocess.TimeoutExpired:
        return 124, "native replay did not return within %ds (watchdog)" % timeout


# ------------------------------------------------------------------------------------------
# vgen: the tree's own generator

_vgen_exe = None


def vgen_exe():
    """Build (or rebuild, cargo decides from /repo's sources) the generator driver."""
    global _vgen_exe
    if _vgen_exe:
        return _vgen_exe
    d = ensure_dir(os.path.join(WORK, "vgen"))
    write_if_changed(os.path.join(d, "Cargo.toml"), f"""[package]
name = "vgen"
version = "0.1.0"
edition = "2021"
[workspace]
[[bin]]
name = "vgen"
path = "{VERIF}/rt/vgen_main.rs"
[dependencies]
peginator_codegen = {{ path = "{REPO}/codegen" }}
[profile.dev]
debug = false
""")
    lockfile_for(d)
    env = dict(ENV)
    env.pop("RUSTFLAGS", None)      # the generator itself is built without the guard
    p = subprocess.run(["cargo", "build", "--offline", "--target-dir", os.path.join(d, "target")],
                       cwd=d, env=env, capture_output=True, text=True)
    if p.returncode != 0:
        raise RuntimeError("vgen build failed:\n" + p.stderr[-4000:])
    _vgen_exe = os.path.join(d, "target", "debug", "vgen")
    return _vgen_exe


def generate(batch):
    """batch: list of (grammar_text, dst_path, user_ctx or None). Returns {dst: (ok, message)}."""
    exe = vgen_exe()
    lines = []
    for text, dst, ctx in batch:
        src = dst[:-3] + ".ebnf"
        write_if_changed(src, text)
        lines.append(f"{src}\t{dst}\t{ctx or '-'}")
    p = subprocess.run([exe], input="\n".join(lines) + "\n", capture_output=True, text=True)
    out = {}
    for line in p.stdout.splitlines():
        a = line.split(" ", 2)
        if a[0] == "OK":
            out[a[1]] = (True, "")
        elif a[0] == "ERR":
            out[a[1]] = (False, a[2] if len(a) > 2 else "")
    for text, dst, ctx in batch:
        out.setdefault(dst, (False, "no answer from vgen: " + p.stderr[-500:]))
    return out
