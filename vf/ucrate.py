"""The U crate: unit harnesses on /repo/runtime (rt/u_lib.rs) and the table of its entry points."""
import os

from . import crates, kani

U_LIB = os.path.join(kani.VERIF, "rt", "u_lib.rs")

# (harness, unwind, call, description, bound)
def entries():
    E = []
    def add(name, unwind, call, desc, bound):
        E.append((name, unwind, call, desc, bound))
    add("lemma_utf8_ok_4", 6, "lemma_utf8_ok::<4,_>(src)", "model lemma: vrt::utf8_ok == std::str::from_utf8(..).is_ok()",
        {"input_bytes": "<=4, every byte string"})
    add("lemma_count_chars_3", 6, "lemma_count_chars::<3,_>(src)", "model lemma: vrt::count_chars_model == Chars::count (run without the stub)",
        {"input_bytes": "<=3, every UTF-8 string"})
    for n in range(0, 6):
        add(f"c11_len{n}", n + 3, f"c11_pretty::<{n},_>(src)",
            "PrettyParseError::from_parse_error: line index, column index and printed line for every text of "
            f"exactly {n} bytes of UTF-8, every boundary position 0..=len, with and without file name",
            {"text_bytes": n, "alphabet": "all UTF-8", "position": "every char boundary 0..=len", "source_file": "None|Some"})
    for n in (3, 4):
        u = n + 3
        b = {"input_bytes": f"<={n}", "alphabet": "all UTF-8", "entry_offset": "every char boundary"}
        add(f"m_char_literal_{n}", u, f"m_char_literal::<{n},_>(src)", "parse_character_literal, symbolic literal char", dict(b, literal="every char"))
        add(f"m_char_range_{n}", u, f"m_char_range::<{n},_>(src)", "parse_character_range, symbolic end points", dict(b, range="every (from,to)"))
        add(f"m_any_char_{n}", u, f"m_any_char::<{n},_>(src)", "parse_char", b)
        add(f"m_eoi_{n}", u, f"m_eoi::<{n},_>(src)", "parse_end_of_input", b)
        add(f"m_whitespace_{n}", u, f"m_whitespace::<{n},_>(src)", "built-in parse_Whitespace skips exactly the maximal prefix of \\t \\n \\x0C \\r space", b)
        add(f"m_string_literal_{n}", u + 1, f"m_string_literal::<{n},3,_>(src)", "parse_string_literal, symbolic literal of 0..3 bytes of UTF-8", dict(b, literal="every UTF-8 string of <=3 bytes"))
        add(f"m_char_insensitive_{n}", u, f"m_char_insensitive::<{n},_>(src, true)", "parse_character_literal_insensitive, every lower-case ASCII literal", dict(b, literal="every ASCII char c with lower(c)==c"))
        add(f"m_string_insensitive_{n}", u + 1, f"m_string_insensitive::<{n},3,_>(src, true)", "parse_string_literal_insensitive, every lower-case ASCII literal of 0..3 bytes", dict(b, literal="ASCII lower-case, <=3 bytes"))
        add(f"m_cursor_{n}", u, f"m_cursor::<{n},_>(src)", "ParseState::{advance, advance_safe, slice_until, range_until, is_further_than, cache_key}", b)
        add(f"e_record_{n}", u, f"e_record::<{n},_>(src)", "record_error / report_error / report_farthest_error from an arbitrary state", dict(b, error_positions="0..=N each"))
        add(f"e_no_error_{n}", u, f"e_no_error::<{n},_>(src)", "report_farthest_error without a recorded failure", b)
        add(f"e_choice_{n}", u, f"e_choice::<{n},_>(src)", "ChoiceHelper with three alternatives of symbolic outcome", dict(b, outcomes="every (ok, advance, error offset)^3"))
    add("h_two_insensitive_literals_3", 7, "h_two_insensitive_literals::<3,3,_>(src)", "two calls of parse_string_literal_insensitive with independent symbolic literals and inputs: the second result is still exact",
        {"input_bytes": "<=3 each", "literals": "ASCII lower-case/letterless, <=3 bytes each"})
    add("h_two_whitespace_ranges_3", 6, "h_two_whitespace_ranges::<3,_>(src)", "parse_Whitespace and parse_character_range called on one input, then on another: second results still exact",
        {"input_bytes": "<=3 each", "range": "every (from,to)"})
    # guard-necessity witnesses: must FAIL
    add("w_char_insensitive_nonascii_4", 7, "m_char_insensitive::<4,_>(src, false)",
        "witness: parse_character_literal_insensitive with an arbitrary (also non-ASCII) literal is NOT sound - the generator's ASCII guard is load-bearing",
        {"input_bytes": "<=4", "literal": "every char"})
    add("m_string_insensitive_anylit_4", 8, "m_string_insensitive::<4,3,_>(src, false)",
        "parse_string_literal_insensitive with an arbitrary (also non-ASCII) literal: never splits a UTF-8 sequence (the ASCII guard of the generator "
        "matters for the character variant only)", {"input_bytes": "<=4", "literal": "every UTF-8 string <=3 bytes"})
    return E


_C11 = ["position at end of text", "position at the end of a line", "position at the start of a later line",
        "column after a multi-byte character"]
OPTIONAL_COVERS = {"m_any_char_3": ["4-byte character"], "c11_len0": _C11[1:], "c11_len1": _C11[2:], "c11_len2": _C11[3:]}

_crate = None

def crate():
    global _crate
    if _crate is None:
        body = open(U_LIB).read()
        ent = [(n, u, c) for (n, u, c, d, b) in entries()]
        _crate = crates.assemble("u_rt", body, ent)
    return _crate


def job(name, jid=None, **kw):
    for (n, u, c, d, b) in entries():
        if n == name:
            meta = {"role": name, "optional_covers": OPTIONAL_COVERS.get(name, ()), "impossible_covers": OPTIONAL_COVERS.get(name, ())}
            return kani.Job(jid=jid or name, crate=crate(), harness=name, desc=d, bound=dict(b, unwind=u),
                            meta=meta, **kw)
    raise KeyError(name)
