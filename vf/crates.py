"""Assembling harness crates: proofs list + native dispatcher from one table."""
import os

from . import kani

MAIN_RS = """use std::panic;
fn main() {
    let args: Vec<String> = std::env::args().collect();
    if args.len() < 3 {
        eprintln!("usage: replay <harness> <hex,hex,...>");
        std::process::exit(2);
    }
    let name = args[1].clone();
    if args[2] == "--enum" {
        // development smoke test (decides nothing): every string over the given alphabet up to N bytes
        let n: usize = args[3].parse().unwrap();
        let alphabet: Vec<String> = args[4].split(',').map(|h| String::from_utf8(CRATE::vrt::parse_vals(h)[0].clone()).unwrap()).collect();
        let fixed = name.rsplit('_').next().map(|t| t.starts_with("len")).unwrap_or(false);
        let mut work: Vec<String> = vec![String::new()];
        let mut all: Vec<String> = vec![String::new()];
        loop {
            let mut next = Vec::new();
            for w in &work { for a in &alphabet { let t = format!("{w}{a}"); if t.len() <= n { next.push(t); } } }
            if next.is_empty() { break; }
            all.extend(next.iter().cloned());
            work = next;
        }
        let (mut ran, mut bad) = (0usize, 0usize);
        panic::set_hook(Box::new(|_| {}));
        for s in &all {
            if fixed { let l: usize = name.rsplit("len").next().unwrap().parse().unwrap(); if s.len() != l { continue; } }
            let mut vals: Vec<Vec<u8>> = s.bytes().map(|b| vec![b]).collect();
            while vals.len() < n { vals.push(vec![0]); }
            if !fixed { vals.push((s.len() as u64).to_le_bytes().to_vec()); }
            for extra in &args[5..] { vals.extend(CRATE::vrt::parse_vals(extra)); }
            let mut src = CRATE::vrt::ReplaySrc::new(vals);
            let r = panic::catch_unwind(panic::AssertUnwindSafe(|| CRATE::dispatch(&name, &mut src)));
            ran += 1;
            let failed = r.is_err() || !src.failed.is_empty();
            if failed && !src.assumption_violated {
                bad += 1;
                if bad <= 8 { println!("ENUM {name}: input {:?} -> {:?} panic={}", s, src.failed, r.is_err()); }
            }
        }
        println!("ENUM {name}: {ran} inputs, {bad} failing");
        std::process::exit(if bad > 0 { 1 } else { 0 });
    }
    let vals = CRATE::vrt::parse_vals(&args[2]);
    let mut src = CRATE::vrt::ReplaySrc::new(vals);
    let r = panic::catch_unwind(panic::AssertUnwindSafe(|| CRATE::dispatch(&name, &mut src)));
    let code = match r {
        Ok(true) => CRATE::vrt::report(&name, &src, None),
        Ok(false) => {
            println!("REPLAY {name}: unknown harness");
            2
        }
        Err(p) => {
            let msg = if let Some(s) = p.downcast_ref::<&str>() {
                s.to_string()
            } else if let Some(s) = p.downcast_ref::<String>() {
                s.clone()
            } else {
                "panic".to_string()
            };
            CRATE::vrt::report(&name, &src, Some(msg))
        }
    };
    std::process::exit(code);
}
"""


def proofs_and_dispatch(entries, stubs=("format",)):
    """entries: list of (harness_name, unwind, call_expr_with_src) e.g. ("c11_len2", 7, "c11_pretty::<2,_>(src)")."""
    out = []
    for name, unwind, call in entries:
        attrs = f"#[cfg(kani)]\n#[kani::proof]\n#[kani::unwind({unwind})]\n"
        if "format" in stubs:
            attrs += "#[kani::stub(alloc::fmt::format, fake_format)]\n"
        if "countchars" in stubs and not name.startswith("lemma_count_chars"):
            attrs += "#[kani::stub(core::str::count::count_chars, vrt::count_chars_model)]\n"
        if "backtrace" in stubs:
            attrs += "#[kani::stub(std::backtrace::Backtrace::capture, fake_capture)]\n"
        out.append(f"{attrs}fn {name}() {{\n    let src = &mut vrt::KaniSrc;\n    {call};\n}}\n")
    out.append("pub fn dispatch(name: &str, src: &mut vrt::ReplaySrc) -> bool {\n    match name {")
    for name, unwind, call in entries:
        out.append(f'        "{name}" => {{ {call}; true }}')
    out.append("        _ => false,\n    }\n}\n")
    return "\n".join(out)


def assemble(name, body_rs, entries, stubs=("format", "countchars"), deps_codegen=False, extra_files=None):
    lib = f'include!("{kani.RT}");\n' + body_rs + "\n" + proofs_and_dispatch(entries, stubs)
    files = {"src/lib.rs": lib, "src/main.rs": MAIN_RS.replace("CRATE", name)}
    if extra_files:
        files.update(extra_files)
    return kani.write_crate(name, files, deps_codegen=deps_codegen)
