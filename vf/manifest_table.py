"""What MANIFEST.json says per property (tools/mkmanifest.py renders it)."""

TECH = "bounded symbolic execution of the compiled Rust code with Kani/CBMC (SAT), counterexamples replayed natively"

CLAIMED = {
    "C11": {
        "text": "PrettyParseError::from_parse_error (the real function, colored off) is executed symbolically for every text of up to 4 (thorough: 5) "
                "bytes of valid UTF-8, every character-boundary position 0..=len and both source_file cases; CBMC proves no panic and that the line index, "
                "column index and printed line it computes equal the specification. Bounded: longer texts are outside; the final format! of those numbers "
                "into the rendered string is stubbed and not decided.",
        "ref": "DESIGN.md section 7, C11",
        "note": "Kani/CBMC/rustc; stub alloc::fmt::format; observation hook H3; own UTF-8 validator (lemma-checked against std)",
        "technique": TECH,
    },
}

_BUILDING = "check not registered yet (framework under construction in this round)"
NOT_APPLICABLE = {
    "C01": _BUILDING, "C02": _BUILDING, "C04": _BUILDING, "C05": _BUILDING, "C06": _BUILDING, "C07": _BUILDING,
    "C08": _BUILDING, "C09": _BUILDING, "C10": _BUILDING, "C12": _BUILDING, "C13": _BUILDING, "C14": _BUILDING,
    "C19": _BUILDING, "C20": _BUILDING,
    "C03": "decided by rustc's type checker on generated declarations, not by a satisfiability query; the arity computation over String/Vec/BTreeMap ASTs does not fit CBMC (probe p12: >9 GB, 15 min in symex)",
    "C15": "subject is the whole generator on arbitrary text (Grammar::from_str + quote!/format_ident!/anyhow) and process exit statuses: 5 symbolic bytes through the front end exceed 21 GB",
    "C16": "byte equality of outputs of separate OS processes / entry points: a symbolic execution is one deterministic run, there is no variable to quantify over",
    "C17": "one concrete regenerate-build-regenerate computation plus the whole front end on all texts; the front end does not fit the solver",
    "C18": "std::fs calls around a full generator run; foreign calls Kani cannot execute, nothing of the real code would remain but one string comparison",
}

NOTES = ("Technique fixed by the brief: solver-based checking of the real code (Kani/CBMC). Exit codes of ./check: 0 held within bounds, "
         "1 violation replayed natively (VIOLATION line), 2 undecided (never reported as pass). See DESIGN.md.")
