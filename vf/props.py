"""Per-property check definitions."""
import json
import os
import sys

from . import driver, kani, ucrate

SLOTS = int(os.environ.get("VERIF_SLOTS", "14"))

COMMON_ASSUMPTIONS = [
    "Kani 0.68 MIR->goto translation and CBMC 6.11 bit-precise semantics; rustc",
    "bounds: every claim is for inputs up to the stated number of bytes only; unwinding assertions are on, "
    "so a bound that is too small is reported as undecided, never as a pass",
]
U_ASSUMPTIONS = COMMON_ASSUMPTIONS + [
    "stub: alloc::fmt::format -> String::new() (formatted text is not what is being decided)",
    "model lemma lemma_utf8_ok_4 (solver-checked in C01/C04): the harnesses' UTF-8 validator equals std's",
]


def describe_u(job, vals):
    n = job.bound.get("text_bytes")
    d = {"draws": vals}
    return d


# ---------------------------------------------------------------------------------------------
def c11(tier, seed):
    lens = range(0, 5) if tier == "quick" else range(0, 6)
    jobs = []
    for n in lens:
        jobs.append(ucrate.job(f"c11_len{n}", timeout=1500 if n < 5 else 3600, mem_gb=16,
                               weight=1 if n < 4 else 3, required=(n < 5)))
    rule = ("one harness per text length (partition of all texts of <= N bytes of UTF-8); each harness is decided by "
            "CBMC for every text of that length, every boundary position and both source_file cases; "
            "a harness counts as non-trivial when it is SUCCESSFUL and all its cover witnesses are satisfied")
    ass = U_ASSUMPTIONS + [
        "hook H3 publishes (line index, column index, line start, line length) computed by from_parse_error",
        "not solver-checked: the final format! of those numbers into the rendered text and caret (stubbed)",
    ]
    return jobs, describe_u, rule, ass


PROPS = {"C11": c11}


def run(pid, tier, seed, only=None, list_only=False):
    if pid not in PROPS:
        print(f"unknown or not-applicable property {pid}")
        return 2
    jobs, describe, rule, ass = PROPS[pid](tier, seed)
    if only:
        jobs = [j for j in jobs if j.jid in only]
    if list_only:
        for j in jobs:
            print(j.jid, "|", j.desc, "|", j.bound)
        return 0
    print(f"check {pid} tier={tier} seed={seed}: {len(jobs)} harnesses, repo={kani.REPO}", flush=True)
    chk = driver.Check(pid, tier, seed, rule, ass)
    results = kani.run_jobs(jobs, slots=SLOTS)
    return chk.finish(results, describe)


def replay(pid, path):
    rec = json.load(open(path))
    jobs, describe, rule, ass = PROPS[pid]("thorough", 0)
    for j in jobs:
        if j.jid == rec["job"]:
            worst = 0
            for rel in (False, True):
                rc, out = kani.replay(j.crate, j.harness, rec["vals"], release=rel)
                print(f"--- {'release' if rel else 'dev'} build, rc={rc}\n{out}")
                worst = max(worst, 1 if rc in (1, 101, 124, 134, 139, -6, -11) else 0)
            return worst
    print("harness of this replay file is not part of the current check definition")
    return 2
