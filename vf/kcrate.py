"""The K crate: escape decoders of codegen/src/string.rs through the public AST types."""
import os

from . import crates, kani

K_LIB = os.path.join(kani.VERIF, "rt", "k_lib.rs")
ENTRIES = [
    ("k_hexa", 4, "k_hexa(src)", "From<&HexaEscape> for char, both hex digits symbolic", {"digits": "every pair of hexadecimal digits"}),
    ("k_simple", 4, "k_simple(src)", "From<&SimpleEscape> for char and TryFrom<&StringItem>", {"escape": "all six"}),
    ("k_utf8", 8, "k_utf8(src)", "TryFrom<&Utf8Escape> for char, 1..6 symbolic hex digits", {"digits": "every string of 1..6 hexadecimal digits"}),
    ("k_literal", 6, "k_literal(src)", "TryFrom<&StringLiteral> for String: items concatenated in order", {"items": "char + \\xHH (+ \\t), symbolic"}),
]
_crate = None


def crate():
    global _crate
    if _crate is None:
        body = open(K_LIB).read()
        lib = f'include!("{kani.RT}");\n' + body + "\n" + crates.proofs_and_dispatch([(n, u, c) for (n, u, c, d, b) in ENTRIES], stubs=("format", "backtrace"))
        _crate = kani.write_crate("k_cg", {"src/lib.rs": lib, "src/main.rs": crates.MAIN_RS.replace("CRATE", "k_cg")}, deps_codegen=True)
    return _crate


def jobs(**kw):
    out = []
    for (n, u, c, d, b) in ENTRIES:
        out.append(kani.Job(jid=n, crate=crate(), harness=n, desc=d, bound=dict(b, unwind=u), meta={"role": n}, **kw))
    return out
