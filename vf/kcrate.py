"""The K crate: escape decoders of codegen/src/string.rs through the public AST types."""
import os

from . import crates, kani

K_LIB = os.path.join(kani.VERIF, "rt", "k_lib.rs")
ENTRIES = [
    ("k_hexa", 4, "k_hexa(src)", "From<&HexaEscape> for char, both hex digits symbolic", {"digits": "every pair of hexadecimal digits"}),
    ("k_simple", 4, "k_simple(src)", "From<&SimpleEscape> for char and TryFrom<&StringItem>", {"escape": "all six"}),
    ("k_utf8", 8, "k_utf8(src)", "TryFrom<&Utf8Escape> for char, 1..6 symbolic hex digits", {"digits": "every string of 1..6 hexadecimal digits"}),
    ("e_hexa", 6, "e_hexa(src)", "shipped front end: parse_HexaEscape on x + 3 symbolic bytes, then the real decoder", {"text": "x followed by <=3 arbitrary bytes of UTF-8"}),
    ("e_utf8_u", 11, "e_utf8_u::<9,_>(src)", "shipped front end: parse_Utf8Escape on u + 8 symbolic bytes (both u-forms), then the real decoder", {"text": "u followed by <=8 arbitrary bytes of UTF-8"}),
    ("e_utf8_big", 12, "e_utf8_big(src)", "shipped front end: parse_Utf8Escape on U + 9 symbolic bytes, then the real decoder", {"text": "U followed by <=9 arbitrary bytes of UTF-8"}),
    ("e_ws", 7, "e_ws::<4,_>(src)", "shipped front end: parse_Whitespace (blanks and # comments) on every text of <=4 bytes of UTF-8 against a reference lexer (thorough-tier stretch: 16 min / 16 GB)", {"text": "<=4 arbitrary bytes of UTF-8"}),
    ("e_item", 6, "e_item(src)", "shipped front end: parse_StringItem on every text of <=4 bytes of UTF-8", {"text": "<=4 arbitrary bytes of UTF-8"}),
]
_crate = None


def crate():
    global _crate
    if _crate is None:
        body = open(K_LIB).read().replace("__REPO__", kani.REPO)
        lib = f'include!("{kani.RT}");\n' + body + "\n" + crates.proofs_and_dispatch([(n + "_h", u, c) for (n, u, c, d, b) in ENTRIES], stubs=("format", "backtrace"))
        _crate = kani.write_crate("k_cg", {"src/lib.rs": lib, "src/main.rs": crates.MAIN_RS.replace("CRATE", "k_cg")}, deps_codegen=True)
    return _crate


def jobs(tier="quick", **kw):
    out = []
    for (n, u, c, d, b) in ENTRIES:
        if n == "e_ws":
            if tier == "quick":
                continue
            out.append(kani.Job(jid=n, crate=crate(), harness=n + "_h", desc=d, bound=dict(b, unwind=u), meta={"role": n},
                                timeout=3600, mem_gb=26, weight=5, required=False))
            continue
        out.append(kani.Job(jid=n, crate=crate(), harness=n + "_h", desc=d, bound=dict(b, unwind=u), meta={"role": n}, **kw))
    return out
