"""Grammar model for family grammars: AST, printer to peginator syntax, and an independent
implementation of the documented field/arity/type mapping (used to read the generated types)."""
from dataclasses import dataclass, field
from typing import List, Optional


# ------------------------------------------------------------------------------------------
# expressions

class E:
    pass


@dataclass
class Seq(E):
    parts: List[E]


@dataclass
class Choice(E):
    alts: List[E]


@dataclass
class Opt(E):
    e: E


@dataclass
class Star(E):
    e: E


@dataclass
class Plus(E):
    e: E


@dataclass
class Not(E):
    e: E


@dataclass
class And(E):
    e: E


@dataclass
class Group(E):
    e: E


@dataclass
class Lit(E):
    s: str                      # decoded literal text
    insensitive: bool = False
    quote: str = "'"
    esc: str = "auto"           # auto | x | u4 | U8 | ub  (spelling of non-plain characters)


@dataclass
class Range(E):
    a: str
    b: str
    esc: str = "auto"


@dataclass
class Eoi(E):
    pass


@dataclass
class Call(E):
    rule: str                   # rule name or 'char'
    field: Optional[str] = None  # None | name | '@'
    boxed: bool = False


@dataclass
class Include(E):
    rule: str


def seq(*p):
    return Seq(list(p))


def alt(*a):
    return Choice(list(a))


def lit(s, **kw):
    return Lit(s, **kw)


def f(name, rule, boxed=False):
    return Call(rule, name, boxed)


def ov(rule, boxed=False):
    return Call(rule, "@", boxed)


def call(rule):
    return Call(rule)


# ------------------------------------------------------------------------------------------
# rules

@dataclass
class Rule:
    name: str
    body: E
    export: bool = False
    no_skip_ws: bool = False
    string: bool = False
    position: bool = False
    memoize: bool = False
    leftrec: bool = False
    checks: List[str] = field(default_factory=list)    # rust paths, e.g. crate::user::chk


@dataclass
class CharRule:
    name: str
    parts: list                 # ('lit', c) | ('range', a, b) | ('ref', name)
    checks: List[str] = field(default_factory=list)


@dataclass
class ExternRule:
    name: str
    func: str                   # rust path
    ret: Optional[str] = None   # rust path of the result type (None: String)
    kind: str = "char"          # how the reference reads the value: 'char' | 'str' | 'unit' | 'usize'


@dataclass
class Grammar:
    rules: list
    user_ctx: Optional[str] = None     # rust path of the user context type

    def rule(self, name):
        for r in self.rules:
            if r.name == name:
                return r
        raise KeyError(name)

    def has(self, name):
        return any(r.name == name for r in self.rules)

    def with_flags(self, **per_rule):
        """copy with rule flags changed: with_flags(A=dict(memoize=True))"""
        import copy
        g = copy.deepcopy(self)
        for n, kw in per_rule.items():
            r = g.rule(n)
            for k, v in kw.items():
                setattr(r, k, v)
        return g


# ------------------------------------------------------------------------------------------
# printer

def _esc_char(c, quote, esc):
    o = ord(c)
    if c == "\\":
        return "\\\\"
    if c == "'" and (quote == "'" or esc != "auto"):
        return "\\'"
    if c == '"' and (quote == '"' or esc != "auto"):
        return '\\"'
    if c == "\n":
        return "\\n"
    if c == "\r":
        return "\\r"
    if c == "\t":
        return "\\t"
    plain = 0x20 <= o < 0x7F
    if esc == "auto":
        if plain:
            return c
        if o <= 0xFF:
            return "\\x%02X" % o
        if o <= 0xFFFF:
            return "\\u%04x" % o
        return "\\U00%06X" % o
    if esc == "x" and o <= 0xFF:
        return "\\x%02x" % o
    if esc == "u4" and o <= 0xFFFF:
        return "\\u%04X" % o
    if esc == "U8":
        return "\\U00%06x" % o
    if esc == "ub":
        return "\\u{%x}" % o
    if esc == "raw":
        return c
    return "\\u{%X}" % o


def p_lit(l: Lit):
    body = "".join(_esc_char(c, l.quote, l.esc) for c in l.s)
    return ("i" if l.insensitive else "") + l.quote + body + l.quote


def p_expr(e, top=False):
    if isinstance(e, Seq):
        s = " ".join(p_expr(x) for x in e.parts)
        return s
    if isinstance(e, Choice):
        s = " | ".join(p_expr(x) for x in e.alts)
        return s if top else "(" + s + ")"
    if isinstance(e, Opt):
        return "[" + p_expr(e.e, True) + "]"
    if isinstance(e, Star):
        return "{" + p_expr(e.e, True) + "}"
    if isinstance(e, Plus):
        return "{" + p_expr(e.e, True) + "}+"
    if isinstance(e, Not):
        return "!" + p_atomish(e.e)
    if isinstance(e, And):
        return "&" + p_atomish(e.e)
    if isinstance(e, Group):
        return "(" + p_expr(e.e, True) + ")"
    if isinstance(e, Lit):
        return p_lit(e)
    if isinstance(e, Range):
        return "'" + _esc_char(e.a, "'", e.esc) + "'..'" + _esc_char(e.b, "'", e.esc) + "'"
    if isinstance(e, Eoi):
        return "$"
    if isinstance(e, Call):
        if e.field is None:
            return e.rule
        return e.field + ":" + ("*" if e.boxed else "") + e.rule
    if isinstance(e, Include):
        return ">" + e.rule
    raise TypeError(e)


def p_atomish(e):
    """operand of a prefix operator: one DelimitedExpression"""
    if isinstance(e, (Seq, Choice)):
        if isinstance(e, Seq) and len(e.parts) == 1:
            return p_atomish(e.parts[0])
        return "(" + p_expr(e, True) + ")"
    return p_expr(e)


def p_rule(r):
    out = []
    if isinstance(r, Rule):
        if r.export:
            out.append("@export")
        if r.no_skip_ws:
            out.append("@no_skip_ws")
        if r.string:
            out.append("@string")
        if r.position:
            out.append("@position")
        if r.memoize:
            out.append("@memoize")
        if r.leftrec:
            out.append("@leftrec")
        for c in r.checks:
            out.append(f"@check({c})")
        body = p_expr(r.body, True)
        out.append(f"{r.name} = {body};")
    elif isinstance(r, CharRule):
        for c in r.checks:
            out.append(f"@check({c})")
        out.append("@char")
        parts = []
        for p in r.parts:
            if p[0] == "lit":
                parts.append("'" + _esc_char(p[1], "'", "auto") + "'")
            elif p[0] == "range":
                parts.append("'" + _esc_char(p[1], "'", "auto") + "'..'" + _esc_char(p[2], "'", "auto") + "'")
            else:
                parts.append(p[1])
        out.append(f"{r.name} = " + " | ".join(parts) + ";")
    elif isinstance(r, ExternRule):
        if r.ret:
            out.append(f"@extern({r.func} -> {r.ret})")
        else:
            out.append(f"@extern({r.func})")
        out.append(f"{r.name};")
    return "\n".join(out)


def p_grammar(g: Grammar):
    return "\n\n".join(p_rule(r) for r in g.rules) + "\n"


# ------------------------------------------------------------------------------------------
# documented field mapping (independent of codegen/src/*.rs)

ONE, OPT, MULT = 1, 2, 3


@dataclass
class FieldDesc:
    name: str
    types: dict                 # type name -> boxed
    arity: int


class GrammarError(Exception):
    pass


def _merge_types(a, b):
    for k, v in b.items():
        a[k] = a.get(k, False) or v


def fields_of(g: Grammar, e: E, depth=0) -> List[FieldDesc]:
    if depth > 30:
        raise GrammarError("include recursion")
    if isinstance(e, Call):
        if e.field is None:
            return []
        return [FieldDesc("_override" if e.field == "@" else e.field, {e.rule: e.boxed}, ONE)]
    if isinstance(e, Seq):
        out = []
        for p in e.parts:
            for nf in fields_of(g, p, depth):
                for o in out:
                    if o.name == nf.name:
                        o.arity = MULT
                        _merge_types(o.types, nf.types)
                        break
                else:
                    out.append(FieldDesc(nf.name, dict(nf.types), nf.arity))
        return out
    if isinstance(e, Choice):
        arms = [fields_of(g, a, depth) for a in e.alts]
        names = []
        for arm in arms:
            for fd in arm:
                if fd.name not in names:
                    names.append(fd.name)
        out = []
        for n in names:
            types = {}
            ar = ONE
            for arm in arms:
                hit = [fd for fd in arm if fd.name == n]
                if hit:
                    ar = max(ar, hit[0].arity)
                    _merge_types(types, hit[0].types)
                else:
                    ar = max(ar, OPT)
            out.append(FieldDesc(n, types, ar))
        return out
    if isinstance(e, Opt):
        return [FieldDesc(x.name, dict(x.types), max(x.arity, OPT)) for x in fields_of(g, e.e, depth)]
    if isinstance(e, (Star, Plus)):
        return [FieldDesc(x.name, dict(x.types), MULT) for x in fields_of(g, e.e, depth)]
    if isinstance(e, (Not, And)):
        if fields_of(g, e.e, depth):
            raise GrammarError("fields inside a lookahead")
        return []
    if isinstance(e, Group):
        return fields_of(g, e.e, depth)
    if isinstance(e, Include):
        r = g.rule(e.rule)
        if not isinstance(r, Rule):
            raise GrammarError("include of a non-normal rule")
        return fields_of(g, r.body, depth + 1)
    return []


@dataclass
class RuleType:
    kind: str                   # struct | unit | alias | enum | string | stringpos | char | extern
    fields: List[FieldDesc] = field(default_factory=list)
    position: bool = False


def rule_type(g: Grammar, r) -> RuleType:
    if isinstance(r, CharRule):
        return RuleType("char")
    if isinstance(r, ExternRule):
        return RuleType("extern")
    if r.string:
        return RuleType("stringpos" if r.position else "string", [], r.position)
    fs = fields_of(g, r.body)
    if len(fs) == 1 and fs[0].name == "_override":
        if len(fs[0].types) == 1:
            return RuleType("alias", fs)
        return RuleType("enum", fs, r.position)
    if any(x.name == "_override" for x in fs):
        raise GrammarError("mixing override and named fields")
    if not fs and not r.position:
        return RuleType("unit")
    return RuleType("struct", fs, r.position)


RUST_KEYWORDS = {"as", "break", "const", "continue", "else", "enum", "extern", "false", "fn", "for", "if",
                 "impl", "in", "let", "loop", "match", "mod", "move", "mut", "pub", "ref", "return", "self",
                 "Self", "static", "struct", "super", "trait", "true", "type", "unsafe", "use", "where",
                 "while", "async", "await", "dyn", "abstract", "become", "box", "do", "final", "macro",
                 "override", "priv", "typeof", "unsized", "virtual", "yield", "try"}


def ident(n):
    return "r#" + n if n in RUST_KEYWORDS else n


# ------------------------------------------------------------------------------------------
# well-formedness of family grammars (part of every G claim)

def nullable(g, e, seen=()):
    if isinstance(e, Seq):
        return all(nullable(g, p, seen) for p in e.parts)
    if isinstance(e, Choice):
        return any(nullable(g, a, seen) for a in e.alts)
    if isinstance(e, (Opt, Star, Not, And, Eoi)):
        return True
    if isinstance(e, Plus):
        return nullable(g, e.e, seen)
    if isinstance(e, Group):
        return nullable(g, e.e, seen)
    if isinstance(e, Lit):
        return e.s == ""
    if isinstance(e, Range):
        return False
    if isinstance(e, (Call, Include)):
        if e.rule == "char":
            return False
        if e.rule in seen:
            return False
        r = g.rule(e.rule)
        if isinstance(r, CharRule):
            return False
        if isinstance(r, ExternRule):
            return True     # unknown: be conservative
        return nullable(g, r.body, seen + (e.rule,))
    return False


def check_wellformed(g: Grammar):
    """every referenced rule exists; no closure over a nullable body."""
    names = {r.name for r in g.rules}

    def walk(e):
        if isinstance(e, Seq):
            for p in e.parts:
                walk(p)
        elif isinstance(e, Choice):
            for a in e.alts:
                walk(a)
        elif isinstance(e, (Opt, Not, And, Group)):
            walk(e.e)
        elif isinstance(e, (Star, Plus)):
            if nullable(g, e.e):
                raise GrammarError("closure over a body that can match the empty string: " + p_expr(e))
            walk(e.e)
        elif isinstance(e, (Call, Include)):
            if e.rule != "char" and e.rule not in names:
                raise GrammarError("undefined rule " + e.rule)

    for r in g.rules:
        if isinstance(r, Rule):
            walk(r.body)
        elif isinstance(r, CharRule):
            for p in r.parts:
                if p[0] == "ref" and p[1] != "char" and p[1] not in names:
                    raise GrammarError("undefined rule " + p[1])
