"""Differential G harnesses: two or more generated modules (or one module run twice) compared with each
other by generated structural comparators - no reference involved (C05, C06, C13, C19, C20)."""
import hashlib
import os
from dataclasses import dataclass, field

from . import crates, gram as G, kani, refgen


@dataclass
class DSpec:
    name: str
    mods: dict                      # module name -> Grammar
    root: str
    body: str                       # Rust: `pub fn h<S: crate::vrt::Src>(src: &mut S) { ... }` (one or more fns)
    entries: list                   # (harness suffix, unwind, call)
    pairs: list = field(default_factory=list)    # (ma, mb): comparator module same_<ma>_<mb>
    user_rs: str = ""
    n: int = 3
    note: str = ""
    heavy: bool = False
    optional_covers: list = field(default_factory=list)
    cbmc_args: list = field(default_factory=list)
    unwindset: list = field(default_factory=list)
    stretch_entries: list = field(default_factory=list)   # entry suffixes that run in the thorough tier only, undecided allowed


def build(spec: DSpec):
    gen_dir = kani.ensure_dir(os.path.join(kani.WORK, "gen"))
    batch = []
    texts = {}
    for m, g in spec.mods.items():
        G.check_wellformed(g)
        texts[m] = G.p_grammar(g)
        batch.append((texts[m], os.path.join(gen_dir, f"{spec.name}_{m}.rs"), g.user_ctx))
    res = kani.generate(batch)
    info = {"grammars": texts, "generator_ok": True, "generator_msg": ""}
    for (t, dst, c) in batch:
        ok, msg = res[dst]
        if not ok:
            info["generator_ok"] = False
            info["generator_msg"] = msg.split(" | Stack backtrace")[0][:400]
            return None, [], info
    body = ""
    for m in spec.mods:
        dst = os.path.join(gen_dir, f"{spec.name}_{m}.rs")
        body += (f'#[forbid(unsafe_code)]\n#[allow(non_camel_case_types, non_snake_case, unused, clippy::all)]\n'
                 f'pub mod {m} {{\n    include!("{dst}");\n}}\n')
    body += "#[allow(unused, non_snake_case)]\npub mod user {\n" + spec.user_rs + "\n}\n"
    body += "pub fn fake_format(_a: std::fmt::Arguments<'_>) -> String { String::with_capacity(1) }\n"
    for (ma, mb) in spec.pairs:
        body += refgen.SameEmitter(spec.mods[ma], f"crate::{ma}", f"crate::{mb}").module(f"same_{ma}_{mb}")
    body += spec.body
    entries = [(f"{spec.name}_{suf}", u, call) for (suf, u, call) in spec.entries]
    d = crates.assemble(spec.name, body, entries)
    return d, entries, info


def jobs_for(spec: DSpec, timeout=900, mem_gb=14, weight=1, required=True, with_stretch=False):
    d, entries, info = build(spec)
    jobs = []
    if d is None:
        return jobs, info
    gtxt = " || ".join(f"[{m}] " + t.replace("\n", " ") for m, t in info["grammars"].items())
    for (h, u, call) in entries:
        is_stretch = any(h.endswith("_" + suf) for suf in spec.stretch_entries)
        if is_stretch and not with_stretch:
            continue
        jobs.append(kani.Job(jid=h, crate=d, harness=h, desc=(spec.note + " | " if spec.note else "") + gtxt,
                             bound={"input_bytes": f"<={spec.n}", "alphabet": "all UTF-8", "unwind": u, "grammars": info["grammars"]},
                             timeout=timeout, mem_gb=mem_gb, weight=weight, required=(required and not is_stretch), cbmc_args=list(spec.cbmc_args),
                             expect=("known" if h.endswith("_known") else "pass"),
                             meta={"role": spec.name, "nbytes": spec.n, "spec": spec.name, "unwindset": list(spec.unwindset),
                                   "optional_covers": ["parse succeeds", "parse fails"] + list(spec.optional_covers)}))
    return jobs, info


INPUT = """    let (bytes, len) = crate::vrt::draw_input::<{n}, S>(src, None);
    let s = crate::vrt::as_input(src, &bytes, len);
    let b = &bytes[..len];
    let _ = &b;
"""

INPUT2 = """    let (bytes1, len1) = crate::vrt::draw_input::<{n}, S>(src, None);
    let (bytes2, len2) = crate::vrt::draw_input::<{n}, S>(src, None);
    let s1 = crate::vrt::as_input(src, &bytes1, len1);
    let s2 = crate::vrt::as_input(src, &bytes2, len2);
"""

END = '    vcover!(src, true, "harness reaches the end of its assertions");\n}\n'
