"""Independent reference emitter: compiles a family grammar (vf.gram AST), by the PEG semantics the
property statements spell out, into direct Rust functions over a byte slice, plus comparators that
walk the *generated* types through the documented field/arity mapping.

Shares no code with /repo/codegen.  Deliberately naive: no memoization, no inlining decisions.
"""
from . import gram as G


def rs_bytes(s: str) -> str:
    return "&[" + ", ".join("0x%02xu8" % b for b in s.encode("utf-8")) + "]"


class RefEmitter:
    def __init__(self, g: G.Grammar, gmod: str, user: str = "crate::user", nn=8, ne=6, track_nodes=True):
        self.g = g
        self.track_nodes = track_nodes
        self.gmod = gmod            # path of the generated module, e.g. crate::g
        self.user = user
        self.nn = nn
        self.ne = ne
        self.out = []
        self.counter = 0
        self.tid = {"char": 0}
        for i, r in enumerate(g.rules):
            self.tid[r.name] = i + 1
        self.lr = [r.name for r in g.rules if isinstance(r, G.Rule) and r.leftrec]
        if len(self.lr) > 3:
            raise G.GrammarError("more than 3 @leftrec rules")
        self.custom_ws = g.has("Whitespace")

    # ---- helpers --------------------------------------------------------------------------
    def fresh(self):
        self.counter += 1
        return f"e{self.counter}"

    def T(self, name):
        return f"T_{name}"

    def emit(self, s):
        self.out.append(s)

    # ---- expressions ----------------------------------------------------------------------
    def expr(self, e, ctx):
        """emit a function for e; returns its name.  ctx: dict(fields={name: fid}, skip=bool)"""
        name = self.fresh()
        body = self.expr_body(e, ctx)
        self.emit(f"fn {name}(cx: &mut Cx, inp: &str, me: usize, p: usize) -> Option<usize> {{\n"
                  f"    let b = inp.as_bytes();\n    let _ = (&b, me);\n{body}\n}}\n")
        return name

    def ws_line(self, ctx):
        if ctx["skip"]:
            return "    let p = match ws(cx, inp, p) { Some(q) => q, None => return None };\n"
        return ""

    def expr_body(self, e, ctx):
        if isinstance(e, G.Seq):
            lines = ["    let mut p = p;"]
            for part in e.parts:
                fn = self.expr(part, ctx)
                lines.append(f"    p = match {fn}(cx, inp, me, p) {{ Some(q) => q, None => return None }};")
            lines.append("    Some(p)")
            return "\n".join(lines)
        if isinstance(e, G.Choice):
            lines = []
            for a in e.alts:
                fn = self.expr(a, ctx)
                lines.append("    {\n        let m = cx.mark(me);\n"
                             f"        if let Some(q) = {fn}(cx, inp, me, p) {{ return Some(q); }}\n"
                             "        cx.reset(me, m);\n    }")
            lines.append("    None")
            return "\n".join(lines)
        if isinstance(e, G.Opt):
            fn = self.expr(e.e, ctx)
            return ("    let m = cx.mark(me);\n"
                    f"    match {fn}(cx, inp, me, p) {{\n        Some(q) => Some(q),\n"
                    "        None => { cx.reset(me, m); Some(p) }\n    }")
        if isinstance(e, (G.Star, G.Plus)):
            fn = self.expr(e.e, ctx)
            tail = "    if n == 0 { None } else { Some(p) }" if isinstance(e, G.Plus) else "    let _ = n;\n    Some(p)"
            return ("    let mut p = p;\n    let mut n = 0usize;\n    loop {\n        let m = cx.mark(me);\n"
                    f"        match {fn}(cx, inp, me, p) {{\n"
                    "            Some(q) => {\n                if q == p { cx.model_error = true; break; }\n"
                    "                p = q;\n                n += 1;\n            }\n"
                    "            None => { cx.reset(me, m); break; }\n        }\n    }\n" + tail)
        if isinstance(e, G.Not):
            fn = self.expr(e.e, dict(ctx, nofields=True))
            return ("    let m = cx.mark(me);\n    let sv = cx.far_save();\n"
                    f"    let r = {fn}(cx, inp, NOFIELDS, p);\n"
                    "    cx.reset(me, m);\n    cx.far_restore(sv);\n"
                    "    if r.is_some() { cx.fail(p, K_NEG); None } else { Some(p) }")
        if isinstance(e, G.And):
            fn = self.expr(e.e, dict(ctx, nofields=True))
            return ("    let m = cx.mark(me);\n    let sv = cx.far_save();\n"
                    f"    let r = {fn}(cx, inp, NOFIELDS, p);\n"
                    "    cx.reset(me, m);\n"
                    "    if r.is_some() { cx.far_restore(sv); Some(p) } else { None }")
        if isinstance(e, G.Group):
            fn = self.expr(e.e, ctx)
            return f"    {fn}(cx, inp, me, p)"
        if isinstance(e, G.Lit):
            nchars = len(e.s)
            k = "K_CHAR" if nchars == 1 else "K_STRING"
            f = "ilit_at" if e.insensitive else "lit_at"
            return (self.ws_line(ctx) +
                    f"    if {f}(b, p, {rs_bytes(e.s)}) {{ Some(p + {len(e.s.encode('utf-8'))}) }} "
                    f"else {{ cx.fail(p, {k}); None }}")
        if isinstance(e, G.Range):
            return (self.ws_line(ctx) +
                    f"    match char_at(b, p) {{\n        Some((c, k)) if c >= 0x{ord(e.a):x} && c <= 0x{ord(e.b):x} => Some(p + k),\n"
                    "        _ => { cx.fail(p, K_RANGE); None }\n    }")
        if isinstance(e, G.Eoi):
            return self.ws_line(ctx) + "    if p == b.len() { Some(p) } else { cx.fail(p, K_EOI); None }"
        if isinstance(e, G.Call):
            push = ""
            if e.field is not None:
                fname = "_override" if e.field == "@" else e.field
                fid = ctx["fields"].get(fname)
                if fid is not None:
                    push = f"cx.push(me, {fid}, v); "
            if e.rule == "char":
                return (self.ws_line(ctx) +
                        "    match char_at(b, p) {\n"
                        f"        Some((c, k)) => {{ let v = Val {{ ty: 0, a: c as usize, b: 0 }}; let _ = v; {push}Some(p + k) }}\n"
                        "        None => { cx.fail(p, K_ANYCHAR); None }\n    }")
            return (self.ws_line(ctx) +
                    f"    match ref_{e.rule}(cx, inp, p) {{\n"
                    f"        Some((q, v)) => {{ let _ = v; {push}Some(q) }}\n        None => None,\n    }}")
        if isinstance(e, G.Include):
            r = self.g.rule(e.rule)
            fn = self.expr(r.body, ctx)     # the includer's settings and field table
            return f"    {fn}(cx, inp, me, p)"
        raise TypeError(e)

    # ---- rules ----------------------------------------------------------------------------
    def rule(self, r):
        n = r.name
        if isinstance(r, G.CharRule):
            conds = []
            for p in r.parts:
                if p[0] == "lit":
                    conds.append(f"c == 0x{ord(p[1]):x}")
                elif p[0] == "range":
                    conds.append(f"(c >= 0x{ord(p[1]):x} && c <= 0x{ord(p[2]):x})")
                elif p[1] == "char":
                    conds.append("true")
                else:
                    conds.append(f"silent_{p[1]}(cx, inp, pos)")
            checks = "".join(
                f"    if !{c}(char::from_u32(c).unwrap()) {{ return None; }}\n" for c in r.checks)
            self.emit(f"""/// @char {n}: the next character passes every check and matches some part; no skipping inside
fn silent_{n}(cx: &mut Cx, inp: &str, pos: usize) -> bool {{
    let b = inp.as_bytes();
    let _ = &cx;
    let (c, _k) = match char_at(b, pos) {{ Some(x) => x, None => return false }};
{checks.replace("return None", "return false")}    {" || ".join(conds)}
}}
pub fn ref_{n}(cx: &mut Cx, inp: &str, pos: usize) -> Option<(usize, Val)> {{
    let b = inp.as_bytes();
    if silent_{n}(cx, inp, pos) {{
        let (c, k) = decode_at(b, pos);
        Some((pos + k, Val {{ ty: {self.T(n)}, a: c as usize, b: 0 }}))
    }} else {{
        cx.fail(pos, K_CLASS);
        None
    }}
}}
""")
            return
        if isinstance(r, G.ExternRule):
            ctxarg = ", &mut cx.uctx" if self.g.user_ctx else ""
            if r.kind == "char":
                val = f"Val {{ ty: {self.T(n)}, a: v as usize, b: 0 }}"
            elif r.kind == "str":
                val = f"Val {{ ty: {self.T(n)}, a: pos, b: pos + v.len() }}"
            else:
                val = f"Val {{ ty: {self.T(n)}, a: 0, b: 0 }}"
            self.emit(f"""/// @extern {n}: matches iff the user function returns Ok; consumes exactly the returned length
pub fn ref_{n}(cx: &mut Cx, inp: &str, pos: usize) -> Option<(usize, Val)> {{
    match {self.user}::ref_{r.func.split("::")[-1]}(&inp[pos..]{ctxarg}) {{
        Ok((v, k)) => {{ let _ = &v; Some((pos + k, {val})) }}
        Err(_) => {{ cx.fail(pos, K_EXTERN); None }}
    }}
}}
""")
            return
        rt = G.rule_type(self.g, r)
        fields = {fd.name: i for i, fd in enumerate(rt.fields)}
        skip = not r.no_skip_ws
        body_fn = self.expr(r.body, {"fields": fields if not r.string else {}, "skip": skip})
        me = "NOFIELDS" if r.string else "me"
        drop = "    cx.nn = me + 1;\n" if r.string else ""
        checks = ""
        for c in r.checks:
            checks += (f"    if !{self.user}::ref_{c.split('::')[-1]}(cx, inp, v) {{ cx.fail(q, K_CHECK); return None; }}\n")
        if self.track_nodes:
            inner = f"""    let me = cx.alloc(pos);
    let q = match {body_fn}(cx, inp, {me}, pos) {{ Some(q) => q, None => return None }};
    if !cx.model_error {{ cx.nodes[me].end = q; }}
{drop}    let v = Val {{ ty: {self.T(n)}, a: me, b: 0 }};
{checks}    Some((q, v))"""
        else:
            # recogniser mode: no expected tree is built (nothing is compared against it)
            inner = f"""    let q = match {body_fn}(cx, inp, NOFIELDS, pos) {{ Some(q) => q, None => return None }};
    let v = Val {{ ty: {self.T(n)}, a: 0, b: 0 }};
{checks}    Some((q, v))"""
        if r.leftrec:
            L = self.lr.index(n)
            self.emit(f"""fn body_{n}(cx: &mut Cx, inp: &str, pos: usize) -> Option<(usize, Val)> {{
{inner}
}}
/// @leftrec {n}: seed-and-grow as the property states it
pub fn ref_{n}(cx: &mut Cx, inp: &str, pos: usize) -> Option<(usize, Val)> {{
    if pos >= MAXP {{ cx.model_error = true; return None; }}
    if cx.lr_active[{L}][pos] {{ return cx.lr_seed[{L}][pos]; }}
    cx.lr_active[{L}][pos] = true;
    cx.lr_seed[{L}][pos] = None;
    loop {{
        let m = cx.mark(NOFIELDS);
        let r = body_{n}(cx, inp, pos);
        match (r, cx.lr_seed[{L}][pos]) {{
            (Some((q, v)), None) => {{ cx.lr_seed[{L}][pos] = Some((q, v)); }}
            (Some((q, v)), Some((pq, _))) if q > pq => {{ cx.lr_seed[{L}][pos] = Some((q, v)); }}
            _ => {{ cx.reset(NOFIELDS, m); break; }}
        }}
    }}
    cx.lr_active[{L}][pos] = false;
    cx.lr_seed[{L}][pos]
}}
""")
        else:
            self.emit(f"pub fn ref_{n}(cx: &mut Cx, inp: &str, pos: usize) -> Option<(usize, Val)> {{\n{inner}\n}}\n")

    # ---- comparators: generated tree vs expected arena ---------------------------------------
    def unbox(self, expr, boxed):
        return f"&**{expr}" if boxed else expr

    def cmp_elem(self, owner_type, fd, x, val):
        """bool expression: element `x` (a reference to the inner field type) equals expected `val`."""
        if len(fd.types) > 1:
            arms = []
            for t, boxed in sorted(fd.types.items()):
                y = self.unbox("y", boxed)
                arms.append(f"{self.gmod}::{owner_type}::{G.ident(t)}(y) => {val}.ty == {self.T(t)} && {self.cmp_call(t, y, val)},")
            return "(match " + x + " { " + " ".join(arms) + " })"
        (t, boxed), = fd.types.items()
        return f"({val}.ty == {self.T(t)} && {self.cmp_call(t, self.unbox(x, boxed), val)})"

    def cmp_call(self, t, x, val):
        if t == "char":
            return f"(*{x} as usize) == {val}.a"
        return f"cmp_{t}({x}, cx, b, {val})"

    def cmp_field(self, owner_type, fd, fid, access):
        """statements checking one field; `access` is an expression of the field's declared type (by ref)."""
        access = "(" + access + ")"
        enum_name = owner_type
        if fd.arity == G.ONE:
            elem = self.cmp_elem(enum_name, fd, access, "ev.val")
            return (f"    {{ let mut cnt = 0usize; let mut k = 0; while k < node.nev {{ let ev = node.ev[k]; if ev.field == {fid} {{ "
                    f"if cnt == 0 && !{elem} {{ return false; }} cnt += 1; }} k += 1; }} if cnt != 1 {{ return false; }} }}\n")
        if fd.arity == G.OPT:
            elem = self.cmp_elem(enum_name, fd, "x", "ev.val")
            return (f"    {{ let mut cnt = 0usize; let mut k = 0; while k < node.nev {{ let ev = node.ev[k]; if ev.field == {fid} {{ "
                    f"match {access} {{ Some(x) => {{ if cnt == 0 && !{elem} {{ return false; }} }} None => return false }} cnt += 1; }} k += 1; }} "
                    f"if cnt != (if {access}.is_some() {{ 1 }} else {{ 0 }}) {{ return false; }} }}\n")
        elem = self.cmp_elem(enum_name, fd, "x", "ev.val")
        return (f"    {{ let mut cnt = 0usize; let mut k = 0; while k < node.nev {{ let ev = node.ev[k]; if ev.field == {fid} {{ "
                f"match {access}.get(cnt) {{ Some(x) => {{ if !{elem} {{ return false; }} }} None => return false }} cnt += 1; }} k += 1; }} "
                f"if cnt != {access}.len() {{ return false; }} }}\n")

    def comparator(self, r):
        n = r.name
        ty = f"{self.gmod}::{G.ident(n)}"
        head = f"pub fn cmp_{n}(real: &{ty}, cx: &Cx, b: &[u8], v: Val) -> bool {{\n    let _ = (&cx, &b);\n"
        if isinstance(r, G.CharRule):
            self.emit(head + "    (*real as usize) == v.a\n}\n")
            return
        if isinstance(r, G.ExternRule):
            if r.kind == "char":
                self.emit(head + "    (*real as usize) == v.a\n}\n")
            elif r.kind == "str":
                self.emit(head + "    str_eq(real, b, v.a, v.b)\n}\n")
            else:
                self.emit(head + "    let _ = real; true\n}\n")
            return
        rt = G.rule_type(self.g, r)
        pre = head + "    if v.a >= cx.nn { return false; }\n    let node = &cx.nodes[v.a];\n"
        pos = "    if real.position.start != node.start || real.position.end != node.end { return false; }\n"
        if rt.kind == "string":
            self.emit(pre + "    str_eq(real, b, node.start, node.end)\n}\n")
        elif rt.kind == "stringpos":
            self.emit(pre + pos + "    str_eq(&real.string, b, node.start, node.end)\n}\n")
        elif rt.kind == "unit":
            self.emit(pre + "    let _ = real;\n    node.nev == 0\n}\n")
        elif rt.kind == "struct":
            s = pre
            if rt.position:
                s += pos
            for fid, fd in enumerate(rt.fields):
                s += self.cmp_field(f"{n}_{fd.name}", fd, fid, f"&real.{G.ident(fd.name)}")
            self.emit(s + "    true\n}\n")
        elif rt.kind == "alias":
            fd = rt.fields[0]
            self.emit(pre + self.cmp_field(n, fd, 0, "real") + "    true\n}\n")
        elif rt.kind == "enum":
            fd = rt.fields[0]
            self.emit(pre + self.cmp_field(n, fd, 0, "real") + "    true\n}\n")

    # ---- module ---------------------------------------------------------------------------
    def module(self, modname="rf_g"):
        self.out = []
        for r in self.g.rules:
            self.rule(r)
        if self.track_nodes:
            for r in self.g.rules:
                self.comparator(r)
        tids = "".join(f"pub const {self.T(n)}: u8 = {i};\n" for n, i in self.tid.items())
        if self.custom_ws:
            ws = ("fn ws(cx: &mut Cx, inp: &str, p: usize) -> Option<usize> {\n    let m = cx.mark(NOFIELDS);\n"
                  "    let r = ref_Whitespace(cx, inp, p);\n    cx.reset(NOFIELDS, m);\n"
                  "    match r { Some((q, _)) => Some(q), None => None }\n}\n")
        else:
            ws = ("fn ws(cx: &mut Cx, inp: &str, p: usize) -> Option<usize> {\n    let _ = &cx;\n"
                  "    Some(ws_builtin(inp.as_bytes(), p))\n}\n")
        return (f"#[allow(non_snake_case, non_upper_case_globals, unused_variables, unused_mut, dead_code, unused_parens, clippy::all)]\n"
                f"pub mod {modname} {{\n"
                "use crate::rf::*;\nuse crate::vrt::decode_at;\n"
                f"pub type Cx = crate::rf::Cx<{self.nn}, {self.ne}>;\n"
                + tids + ws + "\n".join(self.out) + "}\n")


# ---------------------------------------------------------------------------------------------
# comparator between two generated modules (C05, C13, C19, C20): no reference involved

class SameEmitter:
    def __init__(self, g: G.Grammar, ga: str, gb: str):
        self.g = g
        self.ga = ga
        self.gb = gb
        self.out = []

    def elem(self, owner_type, fd, x, y):
        if len(fd.types) > 1:
            arms = []
            for t, boxed in sorted(fd.types.items()):
                p = "&**p" if boxed else "p"
                q = "&**q" if boxed else "q"
                arms.append(f"({self.ga}::{owner_type}::{G.ident(t)}(p), {self.gb}::{owner_type}::{G.ident(t)}(q)) => {self.call(t, p, q)},")
            return "(match (" + x + ", " + y + ") { " + " ".join(arms) + " _ => false })"
        (t, boxed), = fd.types.items()
        if boxed:
            return self.call(t, f"&**{x}", f"&**{y}")
        return self.call(t, x, y)

    def call(self, t, x, y):
        if t == "char":
            return f"(*{x} == *{y})"
        return f"same_{t}({x}, {y})"

    def field(self, owner_type, fd, xa, xb):
        xa = "(" + xa + ")"
        xb = "(" + xb + ")"
        if fd.arity == G.ONE:
            return f"    if !{self.elem(owner_type, fd, xa, xb)} {{ return false; }}\n"
        if fd.arity == G.OPT:
            return (f"    match ({xa}, {xb}) {{ (Some(x), Some(y)) => {{ if !{self.elem(owner_type, fd, 'x', 'y')} {{ return false; }} }} "
                    "(None, None) => {} _ => return false }\n")
        return (f"    {{ if {xa}.len() != {xb}.len() {{ return false; }} let mut k = 0; while k < {xa}.len() {{ "
                f"let x = &{xa}[k]; let y = &{xb}[k]; if !{self.elem(owner_type, fd, 'x', 'y')} {{ return false; }} k += 1; }} }}\n")

    def rule(self, r):
        n = r.name
        head = f"pub fn same_{n}(a: &{self.ga}::{G.ident(n)}, b: &{self.gb}::{G.ident(n)}) -> bool {{\n"
        if isinstance(r, G.CharRule):
            self.out.append(head + "    *a == *b\n}\n")
            return
        if isinstance(r, G.ExternRule):
            if r.kind == "str":
                self.out.append(head + "    str_same(a, b)\n}\n")
            elif r.kind == "char":
                self.out.append(head + "    *a == *b\n}\n")
            else:
                self.out.append(head + "    let _ = (a, b); true\n}\n")
            return
        rt = G.rule_type(self.g, r)
        pos = "    if a.position.start != b.position.start || a.position.end != b.position.end { return false; }\n"
        if rt.kind == "string":
            self.out.append(head + "    str_same(a, b)\n}\n")
        elif rt.kind == "stringpos":
            self.out.append(head + pos + "    str_same(&a.string, &b.string)\n}\n")
        elif rt.kind == "unit":
            self.out.append(head + "    let _ = (a, b); true\n}\n")
        elif rt.kind == "struct":
            s = head + (pos if rt.position else "")
            for fd in rt.fields:
                s += self.field(f"{n}_{fd.name}", fd, f"&a.{G.ident(fd.name)}", f"&b.{G.ident(fd.name)}")
            self.out.append(s + "    true\n}\n")
        else:
            fd = rt.fields[0]
            self.out.append(head + self.field(n, fd, "a", "b") + "    true\n}\n")

    def module(self, modname="same_g"):
        self.out = []
        for r in self.g.rules:
            self.rule(r)
        return (f"#[allow(non_snake_case, unused_variables, dead_code, unused_parens)]\npub mod {modname} {{\n"
                "pub fn str_same(a: &str, b: &str) -> bool {\n    let (x, y) = (a.as_bytes(), b.as_bytes());\n"
                "    if x.len() != y.len() { return false; }\n    let mut k = 0;\n"
                "    while k < x.len() { if x[k] != y[k] { return false; } k += 1; }\n    true\n}\n"
                + "\n".join(self.out) + "}\n")
