#!/usr/bin/env python3
"""Markdown summary of seeded/*/meta.json (which check says what about which seeded change)."""
import glob, json, os
ROOT = os.path.dirname(os.path.dirname(os.path.abspath(__file__)))
rows = []
for f in sorted(glob.glob(os.path.join(ROOT, "seeded", "*", "meta.json"))):
    m = json.load(open(f))
    def fmt(cr):
        out = []
        for k, v in cr.items():
            verdict = {0: "pass (missed)", 1: "VIOLATION (caught)", 2: "undecided"}.get(v["exit"], str(v["exit"]))
            hs = sorted({d.split(":")[0].replace("harness ", "").strip() for d in v.get("detail", [])})
            out.append(f"{k}: {verdict}" + (f" [{', '.join(hs[:3])}]" if hs else ""))
        return "; ".join(out)
    earlier = " // earlier: " + " | ".join(fmt(e["checks_run"]) for e in m.get("earlier_runs", [])) if m.get("earlier_runs") else ""
    rows.append(f"| {m['id']} | {m['confirmed_by_me']['verdict'][:40]} | {fmt(m.get('checks_run', {}))}{earlier} |")
print("| id | confirmed | checks (latest run) // earlier runs |\n|---|---|---|")
print("\n".join(rows))
