#!/usr/bin/env python3
"""Collects a confirmed seeded change from a sub-agent worktree into /verif/seeded/<id>/."""
import json, os, re, shutil, sys
ROOT = os.path.dirname(os.path.dirname(os.path.abspath(__file__)))
w, m = sys.argv[1], sys.argv[2]          # /tmp/mut/C08 m1
base = os.path.basename(w)
prop = re.match(r"(C\d+)", base).group(1)
sid = f"{base}_{m}"
d = os.path.join(ROOT, "seeded", sid)
os.makedirs(d, exist_ok=True)
shutil.copy(os.path.join(w, "_mut", f"{m}.patch"), os.path.join(d, "patch.diff"))
shutil.copy(os.path.join(w, "_mut", f"{m}_demo.patch"), os.path.join(d, "demo.patch"))
readme = open(os.path.join(w, "_mut", "README.md"), errors="replace").read()
conf = {}
for k in ("A", "B"):
    p = os.path.join(w, "_mut", f"confirm_{m}_{k}.log")
    if os.path.exists(p):
        t = open(p).read()
        conf[k] = {"failed_tests": re.findall(r"^test (\S+) \.\.\. FAILED", t, re.M),
                   "results": re.findall(r"^test result: .*$", t, re.M)}
checks = {}
for f in sorted(os.listdir(os.path.join(w, "_mut"))):
    mm = re.match(rf"check_{m}_(C\d+)\.log$", f)
    if mm:
        t = open(os.path.join(w, "_mut", f), errors="replace").read()
        dst = os.path.join(d, f"check_{mm.group(1)}.log")
        if os.path.exists(dst) and open(dst, errors="replace").read() != t:
            n = 1
            while os.path.exists(os.path.join(d, f"check_{mm.group(1)}.earlier{n}.log")):
                n += 1
            shutil.move(dst, os.path.join(d, f"check_{mm.group(1)}.earlier{n}.log"))
        shutil.copy(os.path.join(w, "_mut", f), dst)
        rc = re.findall(r"^rc=(\d+)", t, re.M)
        checks[mm.group(1)] = {"exit": int(rc[-1]) if rc else None,
                               "violations": re.findall(r"^VIOLATION .*$", t, re.M)[:6],
                               "detail": [l.strip() for l in re.findall(r"^  harness .*$", t, re.M)][:6],
                               "undecided": re.findall(r"^UNDECIDED .*$", t, re.M)[:4]}
meta_path = os.path.join(d, "meta.json")
meta = json.load(open(meta_path)) if os.path.exists(meta_path) else {}
if meta.get("checks_run") and meta["checks_run"] != checks:
    meta.setdefault("earlier_runs", []).append({"note": "run with an earlier version of the families / harnesses", "checks_run": meta["checks_run"]})
    for k in list(meta["checks_run"]):
        old = os.path.join(d, f"check_{k}.log")
meta.update({
    "id": sid, "breaks_property": prop, "source": "independent sub-agent given only the property text and a scratch worktree",
    "confirmed_by_me": {
        "A_unchanged_tree_plus_demo": conf.get("A"), "B_change_plus_demo": conf.get("B"),
        "commands": ["tools/confirm_mut.sh " + w + " " + m + "  (cargo test --workspace --no-fail-fast --offline, generated grammar.rs deleted first)"],
        "verdict": "suite passes with the change (only demo tests fail), demo passes without it"
                   if conf.get("A") and not conf["A"]["failed_tests"] and conf.get("B") and conf["B"]["failed_tests"] else "NOT CONFIRMED",
    },
    "checks_run": checks,
    "how_checks_were_run": "tools/runmut.sh: patch applied in the scratch worktree, ./check run with VERIF_REPO=<worktree> (same as applying to /repo and undoing)",
})
sec = re.split(r"^#+ .*\b" + m + r"\b.*$", readme, flags=re.M | re.I)
meta.setdefault("agent_description", (sec[1] if len(sec) > 1 else readme)[:1800])
json.dump(meta, open(meta_path, "w"), indent=1)
print(sid, meta["confirmed_by_me"]["verdict"], {k: (v["exit"], len(v["violations"])) for k, v in checks.items()})
