#!/bin/sh
# run the quick tier of the given checks one after another, one log each
cd "$(dirname "$0")/.."
mkdir -p .work/runall
for p in "$@"; do
  /usr/bin/time -f "$p wall=%es" ./check $p > .work/runall/$p.log 2>&1
  echo "$p rc=$? $(tail -1 .work/runall/$p.log)" >> .work/runall/summary.txt
done
