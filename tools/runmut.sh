#!/bin/sh
# runmut.sh <worktree> <m1|m2> <property> [more properties]: apply the seeded change in the scratch worktree, run the check(s)
# against that worktree (VERIF_REPO), undo the change.  Output: <worktree>/_mut/check_<m>_<prop>.log
W=$1; M=$2; shift 2
V=$(cd "$(dirname "$0")/.." && pwd)
cd $W || exit 9
git checkout -q --detach main 2>/dev/null; git checkout -q -- . ; git clean -fdq -e _mut -e target >/dev/null
git apply _mut/$M.patch || { echo "PATCH DOES NOT APPLY"; exit 4; }
for P in "$@"; do
  WK=/tmp/mutwork/$(basename $W)_${M}_$P
  rm -rf $WK; mkdir -p $WK
  (cd $V && VERIF_REPO=$W VERIF_WORK=$WK/work VERIF_EVIDENCE_DIR=$WK/ev VERIF_REPLAY_DIR=$W/_mut/replays_$M ./check $P > $W/_mut/check_${M}_$P.log 2>&1; echo "rc=$?" >> $W/_mut/check_${M}_$P.log)
  echo "MUT $(basename $W) $M check=$P $(tail -1 $W/_mut/check_${M}_$P.log) violations=$(grep -c '^VIOLATION' $W/_mut/check_${M}_$P.log)"
  rm -rf $WK
done
git checkout -q -- . ; git clean -fdq -e _mut -e target >/dev/null
