#!/usr/bin/env python3
"""Development aid (decides nothing): build family harness crates natively and run every string over a small
alphabet through the harness bodies, to catch mistakes in the reference/comparators before spending solver time."""
import os, subprocess, sys
sys.path.insert(0, os.path.dirname(os.path.dirname(os.path.abspath(__file__))))
from vf import families as F, gharness, kani

def hexs(chars):
    return ",".join(c.encode().hex() for c in chars)

def main():
    fam = sys.argv[1]
    only = sys.argv[2:] 
    specs = getattr(F, fam)() if not fam.endswith("grid") else getattr(F, fam)(0)
    for sp in specs:
        if only and not any(o in sp.name for o in only):
            continue
        try:
            d, entries, info = gharness.build(sp)
        except Exception as e:
            print(sp.name, "BUILD-EXC", repr(e)); continue
        if d is None:
            print(sp.name, "GENERATOR REJECTED:", info["generator_msg"]); continue
        exe, err = kani.build_replay(d)
        if exe is None:
            print(sp.name, "NATIVE BUILD FAILED\n", err[-1500:]); continue
        alpha = getattr(sp, "smoke_alphabet", None) or sorted(set(c for c in info["grammar"] if c.isalnum() and c.islower()) | set(" -:+=()é€"))[:9]
        for (h, u, call) in entries:
            for extra in (getattr(sp, "smoke_extras", None) or [None]):
                cmd = [exe, h, "--enum", str(sp.n), hexs(alpha)] + ([extra] if extra else [])
                p = subprocess.run(cmd, capture_output=True, text=True)
                print(sp.name, (p.stdout.strip().splitlines() or [p.stderr[-300:]])[-1] if p.returncode == 0 else p.stdout[-1200:] + p.stderr[-300:])
main()
