#!/bin/sh
# confirm_mut.sh <worktree> <m1|m2> : A) demo passes on the unchanged tree  B) with the change only demo tests fail
W=$1; M=$2
cd $W || exit 9
git checkout -q --detach main 2>/dev/null
git checkout -q -- . ; git clean -fdq -e _mut -e target >/dev/null
run() { find test/src -name grammar.rs -delete; cargo test --workspace --no-fail-fast --offline 2>&1 | grep -E "^test .*(FAILED|failed)|^test result|panicked|error(\[|:)" ; }
git apply _mut/${M}_demo.patch || { echo "DEMO PATCH DOES NOT APPLY"; exit 3; }
echo "== A: unchanged tree + demo"; run > _mut/confirm_${M}_A.log; grep -c "FAILED\|failed;" _mut/confirm_${M}_A.log
A_FAIL=$(grep -E "^test [^ ]+ \.\.\. FAILED" _mut/confirm_${M}_A.log | wc -l)
git apply _mut/${M}.patch || { echo "MUTATION PATCH DOES NOT APPLY"; git checkout -q -- .; git clean -fdq -e _mut -e target; exit 4; }
echo "== B: change + demo"; run > _mut/confirm_${M}_B.log
B_FAIL=$(grep -E "^test [^ ]+ \.\.\. FAILED" _mut/confirm_${M}_B.log | wc -l)
B_NONDEMO=$(grep -E "^test [^ ]+ \.\.\. FAILED" _mut/confirm_${M}_B.log | grep -v zz_demo | wc -l)
B_ERR=$(grep -cE "^error(\[E|: could not compile)" _mut/confirm_${M}_B.log)
git checkout -q -- . ; git clean -fdq -e _mut -e target >/dev/null
echo "RESULT $W $M A_failed=$A_FAIL B_failed=$B_FAIL B_failed_outside_demo=$B_NONDEMO B_build_errors=$B_ERR"
