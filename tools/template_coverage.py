#!/usr/bin/env python3
"""Development aid (decides nothing): which lines of the generator (codegen/src/*.rs) are executed when the tree's
generator compiles ALL family grammars?  Lines never reached are template branches no family member instantiates -
candidates for new members.  Uses the nightly toolchain's source-based coverage."""
import glob, os, shutil, subprocess, sys
ROOT = os.path.dirname(os.path.dirname(os.path.abspath(__file__)))
sys.path.insert(0, ROOT)
from vf import families as F, gram as G, kani

W = "/tmp/tcov"
shutil.rmtree(W, ignore_errors=True)
os.makedirs(W + "/g")
# 1. all family grammars
fams = ["c01_traps", "c02_family", "c04_family", "c08_family", "c09_family", "c10_family", "c14_family", "c01_symbolic_terminals"]
texts = []
for fn in fams:
    for sp in getattr(F, fn)():
        texts.append((sp.name, G.p_grammar(sp.grammar), sp.grammar.user_ctx))
for sp in F.c01_grid(0):
    texts.append((sp.name, G.p_grammar(sp.grammar), None))
for fn in ["c05_family", "c05_history_family", "c06_family", "c07_family", "c13_family", "c19_family", "c20_family"]:
    try:
        fam = getattr(F, fn)("thorough")
    except TypeError:
        fam = getattr(F, fn)()
    for sp in fam:
        for m, g in sp.mods.items():
            texts.append((sp.name + "_" + m, G.p_grammar(g), g.user_ctx))
print(len(texts), "grammars")
# 2. instrumented vgen
d = W + "/vgen"
os.makedirs(d)
open(d + "/Cargo.toml", "w").write(f'''[package]
name = "vgen"
version = "0.1.0"
edition = "2021"
[workspace]
[[bin]]
name = "vgen"
path = "{ROOT}/rt/vgen_main.rs"
[dependencies]
peginator_codegen = {{ path = "{kani.REPO}/codegen" }}
''')
kani.lockfile_for(d)
# build scripts of the instrumented crates write profiles too: keep them out of /repo
env = dict(os.environ, CARGO_NET_OFFLINE="true", RUSTFLAGS="-C instrument-coverage", RUSTUP_TOOLCHAIN="nightly",
           LLVM_PROFILE_FILE=W + "/build-%p.profraw")
p = subprocess.run(["cargo", "build", "--offline", "--target-dir", d + "/target"], cwd=d, env=env, capture_output=True, text=True)
if p.returncode:
    print(p.stderr[-3000:]); sys.exit(1)
exe = d + "/target/debug/vgen"
lines = []
for name, text, ctx in texts:
    src = f"{W}/g/{name}.ebnf"
    open(src, "w").write(text)
    lines.append(f"{src}\t{W}/g/{name}.rs\t{ctx or '-'}")
env2 = dict(env, LLVM_PROFILE_FILE=W + "/vgen.profraw")
subprocess.run([exe], input="\n".join(lines) + "\n", env=env2, capture_output=True, text=True)
tb = os.path.expanduser("~/.rustup/toolchains/nightly-x86_64-unknown-linux-gnu/lib/rustlib/x86_64-unknown-linux-gnu/bin/")
subprocess.run([tb + "llvm-profdata", "merge", "-sparse", W + "/vgen.profraw", "-o", W + "/vgen.profdata"], check=True)
srcs = sorted(glob.glob(kani.REPO + "/codegen/src/*.rs"))
rep = subprocess.run([tb + "llvm-cov", "report", exe, "-instr-profile=" + W + "/vgen.profdata"] + srcs, capture_output=True, text=True).stdout
print(rep)
show = subprocess.run([tb + "llvm-cov", "show", exe, "-instr-profile=" + W + "/vgen.profdata", "--show-line-counts-or-regions"] + srcs,
                      capture_output=True, text=True).stdout
open(W + "/show.txt", "w").write(show)
# uncovered lines (count 0) in the template files
cur = None
for line in show.splitlines():
    if line.startswith("/") and line.endswith(".rs:"):
        cur = os.path.basename(line[:-1]); continue
    parts = line.split("|")
    if len(parts) >= 3 and parts[1].strip() == "0" and cur in ("choice.rs", "closure.rs", "optional.rs", "sequence.rs", "field.rs", "rule.rs", "lookahead.rs", "string.rs", "char_rule.rs", "extern_rule.rs", "include_rule.rs", "common.rs", "eoi.rs", "misc.rs"):
        txt = parts[2].strip()
        if txt and not txt.startswith("//") and "bail!" not in txt and "panic!" not in txt:
            print(f"UNCOVERED {cur}:{parts[0].strip()}: {txt[:110]}")
