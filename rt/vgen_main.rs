// vgen: runs the tree's own generator (the build-script route, `peginator_codegen::Compile`) on a batch
// of grammar files.  One line per job on stdin:  <src.ebnf> \t <dst.rs> \t <user context type or ->
// Output, one line per job:  OK <dst>   |   ERR <dst> <message>
use std::io::BufRead;

fn main() {
    let stdin = std::io::stdin();
    for line in stdin.lock().lines() {
        let line = line.unwrap();
        let parts: Vec<&str> = line.split('\t').collect();
        if parts.len() < 3 {
            continue;
        }
        let (src, dst, ctx) = (parts[0], parts[1], parts[2]);
        let _ = std::fs::remove_file(dst); // never take the up-to-date shortcut
        let mut c = peginator_codegen::Compile::file(src).destination(dst).derives(vec![
            "Debug".into(),
            "Clone".into(),
            "PartialEq".into(),
            "Eq".into(),
        ]);
        if ctx != "-" {
            c = c.user_context_type(ctx);
        }
        let r = std::panic::catch_unwind(std::panic::AssertUnwindSafe(move || c.run()));
        match r {
            Ok(Ok(())) => println!("OK {dst}"),
            Ok(Err(e)) => println!("ERR {dst} {}", format!("{e:?}").replace('\n', " | ")),
            Err(_) => println!("ERR {dst} generator panicked"),
        }
    }
}
