// Support code shared by every harness crate (included with `include!`).
//
// One harness body is written once against the `Src` trait and runs
//  * under Kani with `KaniSrc` (every draw is `kani::any()`, assume/assert/cover are Kani's), and
//  * natively with `ReplaySrc` (draws come from the byte vectors of a Kani counterexample, or from
//    an explicit case given on the command line), which is how counterexamples are replayed
//    against the real build before anything is reported.
//
// Draw order is part of the contract: Kani's concrete playback lists the values of the
// `kani::any()` calls in call order, so every harness draws all its symbolic values first.


/// Assertion / cover witness usable under Kani (message must be a literal there) and natively.
#[allow(unused_macros)]
macro_rules! vcheck {
    ($src:expr, $c:expr, $m:literal $(,)?) => {{
        #[cfg(kani)]
        {
            let _ = &$src;
            kani::assert($c, $m);
        }
        #[cfg(not(kani))]
        {
            let __c: bool = $c;
            $src.check_native(__c, $m);
        }
    }};
}
#[allow(unused_macros)]
macro_rules! vcover {
    ($src:expr, $c:expr, $m:literal $(,)?) => {{
        #[cfg(kani)]
        {
            let _ = &$src;
            kani::cover!($c, $m);
        }
        #[cfg(not(kani))]
        {
            let __c: bool = $c;
            $src.cover_native(__c, $m);
        }
    }};
}

#[allow(dead_code)]
pub mod vrt {
    pub trait Src {
        fn u8(&mut self) -> u8;
        fn usize(&mut self) -> usize;
        fn u32(&mut self) -> u32;
        fn bool(&mut self) -> bool;
        fn assume(&mut self, c: bool);
        fn check_native(&mut self, c: bool, msg: &'static str);
        fn cover_native(&mut self, c: bool, msg: &'static str);
        fn char(&mut self) -> char {
            let v = self.u32();
            match char::from_u32(v) {
                Some(c) => c,
                None => {
                    self.assume(false);
                    'a'
                }
            }
        }
    }

    #[cfg(kani)]
    pub struct KaniSrc;
    #[cfg(kani)]
    impl Src for KaniSrc {
        #[inline(always)]
        fn u8(&mut self) -> u8 {
            kani::any()
        }
        #[inline(always)]
        fn usize(&mut self) -> usize {
            kani::any()
        }
        #[inline(always)]
        fn u32(&mut self) -> u32 {
            kani::any()
        }
        #[inline(always)]
        fn bool(&mut self) -> bool {
            kani::any()
        }
        #[inline(always)]
        fn assume(&mut self, c: bool) {
            kani::assume(c)
        }
        fn check_native(&mut self, _c: bool, _msg: &'static str) {}
        fn cover_native(&mut self, _c: bool, _msg: &'static str) {}
    }

    /// Native source: values are taken from `vals` in draw order.
    pub struct ReplaySrc {
        pub vals: Vec<Vec<u8>>,
        pub next: usize,
        pub assumption_violated: bool,
        pub failed: Vec<&'static str>,
        pub covered: Vec<&'static str>,
        pub underflow: bool,
    }
    impl ReplaySrc {
        pub fn new(vals: Vec<Vec<u8>>) -> Self {
            ReplaySrc {
                vals,
                next: 0,
                assumption_violated: false,
                failed: Vec::new(),
                covered: Vec::new(),
                underflow: false,
            }
        }
        fn take(&mut self, n: usize) -> u64 {
            if self.next >= self.vals.len() {
                self.underflow = true;
                return 0;
            }
            let v = &self.vals[self.next];
            self.next += 1;
            let mut r: u64 = 0;
            for i in 0..n.min(v.len()).min(8) {
                r |= (v[i] as u64) << (8 * i);
            }
            r
        }
    }
    impl Src for ReplaySrc {
        fn u8(&mut self) -> u8 {
            self.take(1) as u8
        }
        fn usize(&mut self) -> usize {
            self.take(8) as usize
        }
        fn u32(&mut self) -> u32 {
            self.take(4) as u32
        }
        fn bool(&mut self) -> bool {
            self.take(1) != 0
        }
        fn assume(&mut self, c: bool) {
            if !c {
                self.assumption_violated = true;
            }
        }
        fn check_native(&mut self, c: bool, msg: &'static str) {
            if !c && !self.assumption_violated {
                self.failed.push(msg);
            }
        }
        fn cover_native(&mut self, c: bool, msg: &'static str) {
            if c && !self.assumption_violated {
                self.covered.push(msg);
            }
        }
    }

    /// Symbolic UTF-8 input of exactly `len` bytes out of an N-byte buffer.
    /// Draws N single bytes, then (when `fixed_len` is None) the length.
    #[inline(always)]
    pub fn draw_input<const N: usize, S: Src>(src: &mut S, fixed_len: Option<usize>) -> ([u8; N], usize) {
        let mut bytes = [0u8; N];
        let mut i = 0;
        while i < N {
            bytes[i] = src.u8();
            i += 1;
        }
        let len = match fixed_len {
            Some(l) => l,
            None => {
                let l = src.usize();
                src.assume(l <= N);
                if l <= N {
                    l
                } else {
                    0
                }
            }
        };
        (bytes, len)
    }

    /// Independent UTF-8 validity test (no std fast paths): true iff bytes[..len] is well-formed UTF-8.
    pub fn utf8_ok(b: &[u8], len: usize) -> bool {
        let mut i = 0;
        while i < len {
            let c = b[i];
            let n = if c < 0x80 {
                1
            } else if c >= 0xC2 && c <= 0xDF {
                2
            } else if c >= 0xE0 && c <= 0xEF {
                3
            } else if c >= 0xF0 && c <= 0xF4 {
                4
            } else {
                return false;
            };
            if i + n > len {
                return false;
            }
            if n >= 2 {
                let c1 = b[i + 1];
                let (lo, hi) = match c {
                    0xE0 => (0xA0, 0xBF),
                    0xED => (0x80, 0x9F),
                    0xF0 => (0x90, 0xBF),
                    0xF4 => (0x80, 0x8F),
                    _ => (0x80, 0xBF),
                };
                if c1 < lo || c1 > hi {
                    return false;
                }
            }
            if n >= 3 && (b[i + 2] & 0xC0) != 0x80 {
                return false;
            }
            if n >= 4 && (b[i + 3] & 0xC0) != 0x80 {
                return false;
            }
            i += n;
        }
        true
    }

    /// View of the drawn bytes as &str; assumes (in the solver) that they are valid UTF-8.
    #[inline(always)]
    pub fn as_input<'a, S: Src>(src: &mut S, bytes: &'a [u8], len: usize) -> &'a str {
        let ok = utf8_ok(bytes, len);
        src.assume(ok);
        if !ok {
            return "";
        }
        // The bytes were validated by `utf8_ok` above (an independent, loop-only validator).
        // `utf8_ok(b, n) == std::str::from_utf8(&b[..n]).is_ok()` is itself a solver-checked lemma
        // (harness `lemma_utf8_ok` in the U crate), so std's validator is not run a second time here.
        unsafe { std::str::from_utf8_unchecked(&bytes[..len]) }
    }

    /// Decode the scalar value starting at byte `p` of well-formed UTF-8 `b` (p < b.len()).
    #[inline]
    pub fn decode_at(b: &[u8], p: usize) -> (u32, usize) {
        let c = b[p] as u32;
        if c < 0x80 {
            (c, 1)
        } else if c < 0xE0 {
            (((c & 0x1F) << 6) | (b[p + 1] as u32 & 0x3F), 2)
        } else if c < 0xF0 {
            (
                ((c & 0x0F) << 12) | ((b[p + 1] as u32 & 0x3F) << 6) | (b[p + 2] as u32 & 0x3F),
                3,
            )
        } else {
            (
                ((c & 0x07) << 18)
                    | ((b[p + 1] as u32 & 0x3F) << 12)
                    | ((b[p + 2] as u32 & 0x3F) << 6)
                    | (b[p + 3] as u32 & 0x3F),
                4,
            )
        }
    }

    /// Model of `core::str::count::count_chars` (what `Chars::count` calls): number of bytes that are not UTF-8
    /// continuation bytes.  Semantically equal to the std function on every &str; used as a Kani stub because
    /// std's word-at-a-time implementation exhausts CBMC (a change to /repo that merely *uses* `chars().count()`
    /// must not make a harness undecided).
    pub fn count_chars_model(s: &str) -> usize {
        let b = s.as_bytes();
        let mut n = 0;
        let mut i = 0;
        while i < b.len() {
            if (b[i] & 0xC0) != 0x80 {
                n += 1;
            }
            i += 1;
        }
        n
    }

    #[inline]
    pub fn is_boundary(b: &[u8], p: usize) -> bool {
        p == b.len() || (p < b.len() && (b[p] & 0xC0) != 0x80)
    }

    // ----- native replay plumbing -------------------------------------------------------------

    pub fn parse_vals(arg: &str) -> Vec<Vec<u8>> {
        // "0a,0100000000000000,00"  (hex, one group per draw, little endian as Kani prints them)
        if arg.is_empty() {
            return Vec::new();
        }
        arg.split(',')
            .map(|g| {
                let g = g.trim();
                (0..g.len() / 2)
                    .map(|i| u8::from_str_radix(&g[2 * i..2 * i + 2], 16).unwrap())
                    .collect()
            })
            .collect()
    }

    pub fn report(name: &str, src: &ReplaySrc, panicked: Option<String>) -> i32 {
        if src.underflow {
            println!("REPLAY {name}: UNDERFLOW (fewer values than draws)");
            return 4;
        }
        if src.assumption_violated {
            println!("REPLAY {name}: ASSUMPTION-VIOLATED (not an input of this harness)");
            return 3;
        }
        for c in &src.covered {
            println!("REPLAY {name}: COVERED {c}");
        }
        if let Some(p) = panicked {
            println!("REPLAY {name}: PANIC {p}");
            return 1;
        }
        if !src.failed.is_empty() {
            for f in &src.failed {
                println!("REPLAY {name}: FAILED {f}");
            }
            return 1;
        }
        println!("REPLAY {name}: PASS");
        0
    }
}

// ---------------------------------------------------------------------------------------------
// Reference-side runtime: expected trees live in a bump arena of fixed-size nodes (no heap), so a
// backtrack is "restore two counters".  Used by the reference functions that vf/refgen.py emits.
#[allow(dead_code)]
pub mod rf {
    #[derive(Clone, Copy, PartialEq, Eq, Debug)]
    pub struct Val {
        pub ty: u8,
        pub a: usize,
        pub b: usize,
    }
    pub const NOVAL: Val = Val { ty: 255, a: 0, b: 0 };

    #[derive(Clone, Copy, Debug)]
    pub struct Ev {
        pub field: u8,
        pub val: Val,
    }

    #[derive(Clone, Copy, Debug)]
    pub struct Node<const NE: usize> {
        pub start: usize,
        pub end: usize,
        pub nev: usize,
        pub ev: [Ev; NE],
    }

    pub const NOFIELDS: usize = usize::MAX;

    // failure classes (C10 event log)
    pub const K_ANYCHAR: u16 = 1;
    pub const K_CHAR: u16 = 2;
    pub const K_RANGE: u16 = 4;
    pub const K_STRING: u16 = 8;
    pub const K_CLASS: u16 = 16;
    pub const K_EOI: u16 = 32;
    pub const K_NEG: u16 = 64;
    pub const K_CHECK: u16 = 128;
    pub const K_EXTERN: u16 = 256;

    pub const MAXP: usize = 8; // positions tracked for left-recursion seeds (N <= 7)
    pub const MAXLR: usize = 3;

    pub struct Cx<const NN: usize, const NE: usize> {
        pub nodes: [Node<NE>; NN],
        pub nn: usize,
        pub far_set: bool,
        pub far_pos: usize,
        pub far_classes: u16,
        pub all_offsets: u16,
        pub model_error: bool,
        pub lr_active: [[bool; MAXP]; MAXLR],
        pub lr_seed: [[Option<(usize, Val)>; MAXP]; MAXLR],
        pub uctx: [usize; 4],
        pub steps: usize,
    }

    #[derive(Clone, Copy)]
    pub struct Mark {
        nn: usize,
        nev: usize,
    }

    impl<const NN: usize, const NE: usize> Cx<NN, NE> {
        pub fn new() -> Self {
            Cx {
                nodes: [Node { start: 0, end: 0, nev: 0, ev: [Ev { field: 0, val: NOVAL }; NE] }; NN],
                nn: 0,
                far_set: false,
                far_pos: 0,
                far_classes: 0,
                all_offsets: 0,
                model_error: false,
                lr_active: [[false; MAXP]; MAXLR],
                lr_seed: [[None; MAXP]; MAXLR],
                uctx: [0; 4],
                steps: 0,
            }
        }
        #[inline]
        pub fn alloc(&mut self, start: usize) -> usize {
            if self.nn >= NN {
                self.model_error = true;
                return NN - 1;
            }
            let i = self.nn;
            self.nodes[i].start = start;
            self.nodes[i].end = start;
            self.nodes[i].nev = 0;
            self.nn += 1;
            i
        }
        #[inline]
        pub fn mark(&self, me: usize) -> Mark {
            Mark { nn: self.nn, nev: if me == NOFIELDS { 0 } else { self.nodes[me].nev } }
        }
        #[inline]
        pub fn reset(&mut self, me: usize, m: Mark) {
            self.nn = m.nn;
            if me != NOFIELDS {
                self.nodes[me].nev = m.nev;
            }
        }
        #[inline]
        pub fn push(&mut self, me: usize, field: u8, val: Val) {
            if me == NOFIELDS {
                return;
            }
            let k = self.nodes[me].nev;
            if k >= NE {
                self.model_error = true;
                return;
            }
            self.nodes[me].ev[k] = Ev { field, val };
            self.nodes[me].nev = k + 1;
        }
        /// A terminal / check / extern / lookahead attempt failed at `pos`.
        #[inline]
        pub fn fail(&mut self, pos: usize, class: u16) {
            if pos < 16 {
                self.all_offsets |= 1u16 << pos;
            }
            if !self.far_set || pos > self.far_pos {
                self.far_set = true;
                self.far_pos = pos;
                self.far_classes = class;
            } else if pos == self.far_pos {
                self.far_classes |= class;
            }
        }
        #[inline]
        pub fn far_save(&self) -> (bool, usize, u16) {
            (self.far_set, self.far_pos, self.far_classes)
        }
        #[inline]
        pub fn far_restore(&mut self, s: (bool, usize, u16)) {
            self.far_set = s.0;
            self.far_pos = s.1;
            self.far_classes = s.2;
        }
    }

    /// built-in whitespace: maximal prefix of \t \n \x0C \r ' '
    #[inline]
    pub fn ws_builtin(b: &[u8], mut p: usize) -> usize {
        while p < b.len() {
            let c = b[p];
            if c == 9 || c == 10 || c == 12 || c == 13 || c == 32 {
                p += 1;
            } else {
                break;
            }
        }
        p
    }

    #[inline]
    pub fn lit_at(b: &[u8], p: usize, lit: &[u8]) -> bool {
        if p + lit.len() > b.len() {
            return false;
        }
        let mut k = 0;
        while k < lit.len() {
            if b[p + k] != lit[k] {
                return false;
            }
            k += 1;
        }
        true
    }

    #[inline]
    fn lower(c: u8) -> u8 {
        if c >= b'A' && c <= b'Z' {
            c + 32
        } else {
            c
        }
    }

    /// ASCII case-insensitive comparison; `lit` is ASCII.
    #[inline]
    pub fn ilit_at(b: &[u8], p: usize, lit: &[u8]) -> bool {
        if p + lit.len() > b.len() {
            return false;
        }
        let mut k = 0;
        while k < lit.len() {
            if lower(b[p + k]) != lower(lit[k]) {
                return false;
            }
            k += 1;
        }
        true
    }

    /// next scalar value at p, if any
    #[inline]
    pub fn char_at(b: &[u8], p: usize) -> Option<(u32, usize)> {
        if p < b.len() {
            Some(super::vrt::decode_at(b, p))
        } else {
            None
        }
    }

    /// `real` equals input[s..e]
    pub fn str_eq(real: &str, b: &[u8], s: usize, e: usize) -> bool {
        let r = real.as_bytes();
        if e < s || e > b.len() || r.len() != e - s {
            return false;
        }
        let mut k = 0;
        while k < r.len() {
            if r[k] != b[s + k] {
                return false;
            }
            k += 1;
        }
        true
    }

    /// class bit of a real error
    pub fn class_of(s: &peginator::ParseErrorSpecifics) -> u16 {
        use peginator::ParseErrorSpecifics as P;
        match s {
            P::ExpectedAnyCharacter => K_ANYCHAR,
            P::ExpectedCharacter { .. } => K_CHAR,
            P::ExpectedCharacterRange { .. } => K_RANGE,
            P::ExpectedString { .. } => K_STRING,
            P::ExpectedCharacterClass { .. } => K_CLASS,
            P::ExpectedEoi => K_EOI,
            P::NegativeLookaheadFailed => K_NEG,
            P::CheckFunctionFailed { .. } => K_CHECK,
            P::ExternRuleFailed { .. } => K_EXTERN,
            P::LeftRecursionSentinel => 0x4000,
            P::Other => 0x8000,
        }
    }
}
