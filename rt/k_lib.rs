// K harnesses: the escape decoders of the grammar compiler (codegen/src/string.rs), reached through the public
// AST types of peginator_codegen::grammar.  Symbolic hex digits / escape selectors.
use peginator_codegen::grammar::{
    HexaEscape, SimpleEscape, SimpleEscapeBackslash, SimpleEscapeCarriageReturn, SimpleEscapeDQuote,
    SimpleEscapeNewline, SimpleEscapeQuote, SimpleEscapeTab, StringItem, StringLiteral, Utf8Escape,
};
use vrt::Src;

pub fn fake_format(_a: std::fmt::Arguments<'_>) -> String {
    String::with_capacity(1)
}
pub fn fake_capture() -> std::backtrace::Backtrace {
    std::backtrace::Backtrace::disabled()
}

/// value of a hexadecimal digit, by the syntax reference ('0'..'9' | 'a'..'f' | 'A'..'F')
fn hexval(c: char) -> Option<u32> {
    let v = c as u32;
    if v >= '0' as u32 && v <= '9' as u32 {
        Some(v - '0' as u32)
    } else if v >= 'a' as u32 && v <= 'f' as u32 {
        Some(v - 'a' as u32 + 10)
    } else if v >= 'A' as u32 && v <= 'F' as u32 {
        Some(v - 'A' as u32 + 10)
    } else {
        None
    }
}

#[inline(always)]
fn hexdigit<S: Src>(src: &mut S) -> (char, u32) {
    let c = src.char();
    match hexval(c) {
        Some(v) => (c, v),
        None => {
            src.assume(false);
            ('0', 0)
        }
    }
}

pub fn k_hexa<S: Src>(src: &mut S) {
    let (c1, v1) = hexdigit(src);
    let (c2, v2) = hexdigit(src);
    vcover!(src, v1 >= 8, "\\xHH above 0x7F");
    vcover!(src, c1 == 'a' && c2 == 'F', "mixed-case digits");
    let got: char = (&HexaEscape { c1, c2 }).into();
    vcheck!(src, got as u32 == v1 * 16 + v2, "C12: \\xHH denotes U+00HH");
}

pub fn k_simple<S: Src>(src: &mut S) {
    let k = src.u8();
    src.assume(k < 6);
    let (e, want) = match k {
        0 => (SimpleEscape::SimpleEscapeNewline(SimpleEscapeNewline), '\n'),
        1 => (SimpleEscape::SimpleEscapeCarriageReturn(SimpleEscapeCarriageReturn), '\r'),
        2 => (SimpleEscape::SimpleEscapeTab(SimpleEscapeTab), '\t'),
        3 => (SimpleEscape::SimpleEscapeBackslash(SimpleEscapeBackslash), '\\'),
        4 => (SimpleEscape::SimpleEscapeQuote(SimpleEscapeQuote), '\''),
        _ => (SimpleEscape::SimpleEscapeDQuote(SimpleEscapeDQuote), '"'),
    };
    vcover!(src, k == 5, "double quote escape");
    let got: char = (&e).into();
    vcheck!(src, got == want, "C12: \\n \\r \\t \\\\ \\' \\\" denote the documented characters");
    let via_item: Result<char, _> = (&StringItem::SimpleEscape(e)).try_into();
    vcheck!(src, matches!(via_item, Ok(c) if c == want), "C12: a string item holding a simple escape decodes to the same character");
}

pub fn k_utf8<S: Src>(src: &mut S) {
    let n = src.u8();
    src.assume(n >= 1 && n <= 6);
    let mut cs = ['0'; 6];
    let mut v: u32 = 0;
    let mut i = 0;
    while i < 6 {
        let (c, d) = hexdigit(src);
        if (i as u8) < n {
            cs[i] = c;
            v = v * 16 + d;
        }
        i += 1;
    }
    let opt = |i: usize| if (i as u8) < n { Some(cs[i]) } else { None };
    let e = Utf8Escape { c1: cs[0], c2: opt(1), c3: opt(2), c4: opt(3), c5: opt(4), c6: opt(5) };
    let valid = v <= 0x10FFFF && !(v >= 0xD800 && v <= 0xDFFF);
    vcover!(src, n == 6 && valid && v > 0xFFFF, "six digits, supplementary plane");
    vcover!(src, !valid && v <= 0xFFFF, "surrogate rejected");
    vcover!(src, !valid && v > 0x10FFFF, "above U+10FFFF rejected");
    vcover!(src, n == 1, "one digit");
    let got: Result<char, _> = (&e).try_into();
    vcheck!(src, got.is_ok() == valid, "C12: \\u{..} / \\uXXXX / \\U00XXXXXX is an error exactly for surrogates and values above U+10FFFF");
    if let Ok(c) = &got {
        vcheck!(src, *c as u32 == v, "C12: \\u escapes denote the scalar value written in hexadecimal");
    }
    std::mem::forget(got);
}

pub fn k_literal<S: Src>(src: &mut S) {
    let a = src.char();
    let (c1, v1) = hexdigit(src);
    let (c2, v2) = hexdigit(src);
    let third = src.bool();
    let mut body = vec![StringItem::char(a), StringItem::HexaEscape(HexaEscape { c1, c2 })];
    if third {
        body.push(StringItem::SimpleEscape(SimpleEscape::SimpleEscapeTab(SimpleEscapeTab)));
    }
    let lit = StringLiteral { insensitive: None, body };
    vcover!(src, third && (a as u32) > 0x7F, "three items, first one multi-byte");
    let got = String::try_from(&lit);
    match &got {
        Ok(s) => {
            let mut it = s.chars();
            let x = it.next();
            let y = it.next();
            let z = it.next();
            vcheck!(src, x == Some(a), "C12: a literal is its items in order (first)");
            vcheck!(src, y.map(|c| c as u32) == Some(v1 * 16 + v2), "C12: a literal is its items in order (second)");
            vcheck!(src, z == if third { Some('\t') } else { None }, "C12: a literal is its items in order (third / end)");
        }
        Err(_) => vcheck!(src, false, "C12: a literal of valid items decodes"),
    }
    std::mem::forget(got);
    std::mem::forget(lit);
}
