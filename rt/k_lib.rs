// K harnesses: the escape decoders of the grammar compiler (codegen/src/string.rs), reached through the public
// AST types of peginator_codegen::grammar.  Symbolic hex digits / escape selectors.
use peginator_codegen::grammar::{
    HexaEscape, SimpleEscape, SimpleEscapeBackslash, SimpleEscapeCarriageReturn, SimpleEscapeDQuote,
    SimpleEscapeNewline, SimpleEscapeQuote, SimpleEscapeTab, StringItem, Utf8Escape,
};
use vrt::Src;

pub fn fake_format(_a: std::fmt::Arguments<'_>) -> String {
    String::with_capacity(1)
}
pub fn fake_capture() -> std::backtrace::Backtrace {
    std::backtrace::Backtrace::disabled()
}

/// value of a hexadecimal digit, by the syntax reference ('0'..'9' | 'a'..'f' | 'A'..'F')
fn hexval(c: char) -> Option<u32> {
    let v = c as u32;
    if v >= '0' as u32 && v <= '9' as u32 {
        Some(v - '0' as u32)
    } else if v >= 'a' as u32 && v <= 'f' as u32 {
        Some(v - 'a' as u32 + 10)
    } else if v >= 'A' as u32 && v <= 'F' as u32 {
        Some(v - 'A' as u32 + 10)
    } else {
        None
    }
}

#[inline(always)]
fn hexdigit<S: Src>(src: &mut S) -> (char, u32) {
    let c = src.char();
    match hexval(c) {
        Some(v) => (c, v),
        None => {
            src.assume(false);
            ('0', 0)
        }
    }
}

pub fn k_hexa<S: Src>(src: &mut S) {
    let (c1, v1) = hexdigit(src);
    let (c2, v2) = hexdigit(src);
    vcover!(src, v1 >= 8, "\\xHH above 0x7F");
    vcover!(src, c1 == 'a' && c2 == 'F', "mixed-case digits");
    let got: char = (&HexaEscape { c1, c2 }).into();
    vcheck!(src, got as u32 == v1 * 16 + v2, "C12: \\xHH denotes U+00HH");
}

pub fn k_simple<S: Src>(src: &mut S) {
    let k = src.u8();
    src.assume(k < 6);
    let (e, want) = match k {
        0 => (SimpleEscape::SimpleEscapeNewline(SimpleEscapeNewline), '\n'),
        1 => (SimpleEscape::SimpleEscapeCarriageReturn(SimpleEscapeCarriageReturn), '\r'),
        2 => (SimpleEscape::SimpleEscapeTab(SimpleEscapeTab), '\t'),
        3 => (SimpleEscape::SimpleEscapeBackslash(SimpleEscapeBackslash), '\\'),
        4 => (SimpleEscape::SimpleEscapeQuote(SimpleEscapeQuote), '\''),
        _ => (SimpleEscape::SimpleEscapeDQuote(SimpleEscapeDQuote), '"'),
    };
    vcover!(src, k == 5, "double quote escape");
    let got: char = (&e).into();
    vcheck!(src, got == want, "C12: \\n \\r \\t \\\\ \\' \\\" denote the documented characters");
    let via_item: Result<char, _> = (&StringItem::SimpleEscape(e)).try_into();
    vcheck!(src, matches!(via_item, Ok(c) if c == want), "C12: a string item holding a simple escape decodes to the same character");
}

pub fn k_utf8<S: Src>(src: &mut S) {
    let n = src.u8();
    src.assume(n >= 1 && n <= 6);
    let mut cs = ['0'; 6];
    let mut v: u32 = 0;
    let mut i = 0;
    while i < 6 {
        let (c, d) = hexdigit(src);
        if (i as u8) < n {
            cs[i] = c;
            v = v * 16 + d;
        }
        i += 1;
    }
    let opt = |i: usize| if (i as u8) < n { Some(cs[i]) } else { None };
    let e = Utf8Escape { c1: cs[0], c2: opt(1), c3: opt(2), c4: opt(3), c5: opt(4), c6: opt(5) };
    let valid = v <= 0x10FFFF && !(v >= 0xD800 && v <= 0xDFFF);
    vcover!(src, n == 6 && valid && v > 0xFFFF, "six digits, supplementary plane");
    vcover!(src, !valid && v <= 0xFFFF, "surrogate rejected");
    vcover!(src, !valid && v > 0x10FFFF, "above U+10FFFF rejected");
    vcover!(src, n == 1, "one digit");
    let got: Result<char, _> = (&e).try_into();
    vcheck!(src, got.is_ok() == valid, "C12: \\u{..} / \\uXXXX / \\U00XXXXXX is an error exactly for surrogates and values above U+10FFFF");
    if let Ok(c) = &got {
        vcheck!(src, *c as u32 == v, "C12: \\u escapes denote the scalar value written in hexadecimal");
    }
    std::mem::forget(got);
}

// (a harness on TryFrom<&StringLiteral> for String - `collect::<Result<String>>` over the items - was tried in three
// sizes and exhausts CBMC at 16 GB even with two ASCII items; concatenation order is therefore not decided, see DESIGN.md)

// --------------------------------------------------------------------------------------------
// E harnesses: entry points of the SHIPPED front end (codegen/src/grammar/generated.rs, included verbatim),
// followed by the real decoders on the real parse result.
#[allow(non_camel_case_types, non_snake_case, unused, dead_code, clippy::all)]
pub mod fe {
    include!("__REPO__/codegen/src/grammar/generated.rs");
    use peginator::{NoopTracer, ParseError, ParseGlobal, ParseSettings, ParseState};

    macro_rules! entry {
        ($name:ident, $parser:ident, $ty:ty) => {
            pub fn $name(s: &str) -> Result<($ty, usize), ParseError> {
                let st = ParseState::new(s, &ParseSettings::default());
                let mut g = ParseGlobal::<NoopTracer, peginator_generated::ParseCache, ()>::new(Default::default(), ());
                peginator_generated::$parser(st, &mut g).map(|ok| (ok.result, s.len() - ok.state.s().len()))
            }
        };
    }
    entry!(hexa_escape, parse_HexaEscape, HexaEscape);
    entry!(utf8_escape, parse_Utf8Escape, Utf8Escape);
    entry!(string_item, parse_StringItem, StringItem);
    entry!(whitespace, parse_Whitespace, Whitespace);
}

fn conv_utf8(e: &fe::Utf8Escape) -> Utf8Escape {
    Utf8Escape { c1: e.c1, c2: e.c2, c3: e.c3, c4: e.c4, c5: e.c5, c6: e.c6 }
}

#[inline(always)]
fn hexb(b: u8) -> Option<u32> {
    hexval(b as char)
}

/// `xHH` + one trailing byte
pub fn e_hexa<S: Src>(src: &mut S) {
    let (mut bytes, len) = vrt::draw_input::<4, S>(src, None);
    src.assume(len >= 1);
    bytes[0] = b'x';
    let s = vrt::as_input(src, &bytes, len);
    let b = &bytes[..len];
    let want = if len >= 3 { match (hexb(b[1]), hexb(b[2])) { (Some(h), Some(l)) => Some(h * 16 + l), _ => None } } else { None };
    vcover!(src, want.is_some() && len == 4, "accepted with trailing input");
    vcover!(src, want.is_none() && len >= 3, "rejected: not two hexadecimal digits");
    let r = fe::hexa_escape(s);
    vcheck!(src, r.is_ok() == want.is_some(), "C12: \\xHH is read exactly when two hexadecimal digits follow the x");
    if let (Ok((e, used)), Some(v)) = (&r, want) {
        vcheck!(src, *used == 3, "C12: \\xHH consumes the x and two digits");
        let got: char = (&HexaEscape { c1: e.c1, c2: e.c2 }).into();
        vcheck!(src, got as u32 == v, "C12: \\xHH as read by the front end denotes U+00HH");
    }
}

/// `u` + up to 8 more bytes: `u{H..}` (1-6 digits) or `uHHHH`
pub fn e_utf8_u<const N: usize, S: Src>(src: &mut S) {
    let (mut bytes, len) = vrt::draw_input::<N, S>(src, None);
    src.assume(len >= 1);
    bytes[0] = b'u';
    let s = vrt::as_input(src, &bytes, len);
    let b = &bytes[..len];
    // specification: all alternatives of the rule
    let mut want: Option<(usize, u32)> = None;
    if len >= 2 && b[1] == b'{' {
        let mut k = 2;
        let mut v: u32 = 0;
        while k < len && k < 8 {
            match hexb(b[k]) { Some(d) => { v = v * 16 + d; k += 1; } None => break }
        }
        if k > 2 && k < len && b[k] == b'}' {
            want = Some((k + 1, v));
        }
    } else if len >= 5 {
        if let (Some(a), Some(c), Some(d), Some(e)) = (hexb(b[1]), hexb(b[2]), hexb(b[3]), hexb(b[4])) {
            want = Some((5, ((a * 16 + c) * 16 + d) * 16 + e));
        }
    }
    vcover!(src, matches!(want, Some((u, _)) if u == 9), "six digits in braces");
    vcover!(src, matches!(want, Some((5, _))) && b[1] != b'{', "four digits without braces");
    vcover!(src, matches!(want, Some((4, _))), "one digit in braces");
    vcover!(src, want.is_none() && len >= 9 && b[1] == b'{' && hexb(b[8]).is_some(), "seven digits in braces are rejected");
    let r = fe::utf8_escape(s);
    vcheck!(src, r.is_ok() == want.is_some(), "C12: \\u{H..} (1-6 digits) and \\uHHHH are read exactly in their documented forms");
    if let (Ok((e, used)), Some((wu, wv))) = (&r, want) {
        vcheck!(src, *used == wu, "C12: a \\u escape consumes exactly its documented form");
        let valid = wv <= 0x10FFFF && !(wv >= 0xD800 && wv <= 0xDFFF);
        let got: Result<char, _> = (&conv_utf8(e)).try_into();
        vcheck!(src, got.is_ok() == valid, "C12: a \\u escape is an error exactly for surrogates and values above U+10FFFF");
        if let Ok(c) = &got {
            vcheck!(src, *c as u32 == wv, "C12: a \\u escape as read by the front end denotes the scalar value written");
        }
        std::mem::forget(got);
    }
}

/// `U00` + six digits + one trailing byte
pub fn e_utf8_big<S: Src>(src: &mut S) {
    let (mut bytes, len) = vrt::draw_input::<10, S>(src, None);
    src.assume(len >= 1);
    bytes[0] = b'U';
    let s = vrt::as_input(src, &bytes, len);
    let b = &bytes[..len];
    let mut want: Option<u32> = None;
    if len >= 9 && b[1] == b'0' && b[2] == b'0' {
        let mut v: u32 = 0;
        let mut ok = true;
        let mut k = 3;
        while k < 9 {
            match hexb(b[k]) { Some(d) => v = v * 16 + d, None => ok = false }
            k += 1;
        }
        if ok { want = Some(v); }
    }
    vcover!(src, want.is_some() && len == 10, "accepted with trailing input");
    vcover!(src, want.is_none() && len >= 9 && b[1] == b'0' && b[2] == b'1', "first two digits must be 0");
    let r = fe::utf8_escape(s);
    vcheck!(src, r.is_ok() == want.is_some(), "C12: \\U00HHHHHH is read exactly when 00 and six hexadecimal digits follow the U");
    if let (Ok((e, used)), Some(wv)) = (&r, want) {
        vcheck!(src, *used == 9, "C12: \\U00HHHHHH consumes nine characters");
        let valid = wv <= 0x10FFFF && !(wv >= 0xD800 && wv <= 0xDFFF);
        let got: Result<char, _> = (&conv_utf8(e)).try_into();
        vcheck!(src, got.is_ok() == valid, "C12: \\U00HHHHHH is an error exactly for surrogates and values above U+10FFFF");
        if let Ok(c) = &got {
            vcheck!(src, *c as u32 == wv, "C12: \\U00HHHHHH denotes the scalar value written");
        }
        std::mem::forget(got);
    }
}

/// every text of up to 4 bytes through the StringItem rule
pub fn e_item<S: Src>(src: &mut S) {
    let (bytes, len) = vrt::draw_input::<4, S>(src, None);
    let s = vrt::as_input(src, &bytes, len);
    let b = &bytes[..len];
    // kind: 0 none, 1 plain char, 2 simple escape, 3 \xHH
    let mut kind = 0u8;
    let mut used = 0usize;
    let mut val = 0u32;
    if len > 0 {
        if b[0] == b'\\' {
            if len >= 2 {
                let simple = match b[1] { b'n' => Some('\n'), b'r' => Some('\r'), b't' => Some('\t'), b'\\' => Some('\\'), b'\'' => Some('\''), b'"' => Some('"'), _ => None };
                if let Some(c) = simple {
                    kind = 2; used = 2; val = c as u32;
                } else if b[1] == b'x' && len >= 4 {
                    if let (Some(h), Some(l)) = (hexb(b[2]), hexb(b[3])) { kind = 3; used = 4; val = h * 16 + l; }
                }
                // \u.. and \U.. need at least 5 characters: cannot be complete inside 4 bytes
            }
        } else {
            let (c, k) = vrt::decode_at(b, 0);
            kind = 1; used = k; val = c;
        }
    }
    vcover!(src, kind == 3, "hexadecimal escape");
    vcover!(src, kind == 2, "simple escape");
    vcover!(src, kind == 1 && used == 3, "plain 3-byte character");
    vcover!(src, kind == 0 && len >= 2 && b[0] == b'\\', "backslash followed by something that is not an escape");
    let r = fe::string_item(s);
    vcheck!(src, r.is_ok() == (kind != 0), "C12: a string item is a plain character or one of the documented escapes, nothing else starting with a backslash");
    if let Ok((item, u)) = &r {
        vcheck!(src, *u == used, "C12: a string item consumes exactly its characters");
        let structure_ok = match item {
            fe::StringItem::char(c) => kind == 1 && *c as u32 == val,
            fe::StringItem::SimpleEscape(_) => kind == 2,
            fe::StringItem::HexaEscape(h) => kind == 3 && hexval(h.c1).is_some() && hexval(h.c2).is_some(),
            fe::StringItem::Utf8Escape(_) => false,
        };
        vcheck!(src, structure_ok, "C12: the item is read into the structure its syntax denotes");
        if let fe::StringItem::HexaEscape(h) = item {
            let got: char = (&HexaEscape { c1: h.c1, c2: h.c2 }).into();
            vcheck!(src, got as u32 == val, "C12: the escape read by the front end denotes the documented character");
        }
    }
    std::mem::forget(r);
}

/// the front end's own Whitespace rule (blanks and complete `# ... \\n` comments) on every text of up to N bytes
pub fn e_ws<const N: usize, S: Src>(src: &mut S) {
    let (bytes, len) = vrt::draw_input::<N, S>(src, None);
    let s = vrt::as_input(src, &bytes, len);
    let b = &bytes[..len];
    // reference lexer
    let mut p = 0;
    loop {
        if p < len && (b[p] == 9 || b[p] == 10 || b[p] == 12 || b[p] == 13 || b[p] == 32) {
            p += 1;
        } else if p < len && b[p] == b'#' {
            let mut q = p + 1;
            while q < len && b[q] != b'\n' {
                q += 1;
            }
            if q < len { p = q + 1; } else { break; }   // a comment must be closed by a newline
        } else {
            break;
        }
    }
    vcover!(src, p == len && len >= 3 && b[0] == b'#', "a complete comment is skipped");
    vcover!(src, p == 0 && len >= 2 && b[0] == b'#', "an unterminated comment is not skipped");
    vcover!(src, p == 0 && len >= 1 && b[0] == 0x0B, "vertical tab is not layout");
    let r = fe::whitespace(s);
    match &r {
        Ok((_, used)) => vcheck!(src, *used == p, "C12: layout between tokens is blanks and complete # comments, nothing else"),
        Err(_) => vcheck!(src, false, "C12: the layout rule never fails"),
    }
}
