// U harnesses: unit harnesses on the runtime crate (`/repo/runtime`), symbolic input AND symbolic
// program-side parameters (literal, range end points, error positions, closure outcomes).
// The list of #[kani::proof] entry points and the native dispatcher are appended by vf/u_harness.py.

use peginator::verif_hooks as vh;
use peginator::{
    parse_Whitespace, parse_char, parse_character_literal, parse_character_literal_insensitive,
    parse_character_range, parse_end_of_input, parse_string_literal, parse_string_literal_insensitive,
    ChoiceHelper, ParseError, ParseErrorSpecifics, ParseOk, ParseResult, ParseSettings, ParseState,
    PrettyParseError,
};
use std::sync::atomic::Ordering::Relaxed;
use vrt::Src;

pub fn fake_format(_a: std::fmt::Arguments<'_>) -> String {
    // not `String::new()`: Kani 0.68 gives that constant a nondeterministic capacity when the value flows
    // through a stub, which makes its drop look like a bogus `dealloc` (seen in a CBMC trace, see DESIGN.md)
    String::with_capacity(1)
}

// --------------------------------------------------------------------------------------------
// model lemma: the harnesses' own UTF-8 validator agrees with std's on every buffer

pub fn lemma_utf8_ok<const N: usize, S: Src>(src: &mut S) {
    let (bytes, len) = vrt::draw_input::<N, S>(src, None);
    let mine = vrt::utf8_ok(&bytes, len);
    let theirs = std::str::from_utf8(&bytes[..len]).is_ok();
    vcover!(src, mine && len == N, "valid full-length input");
    vcover!(src, !mine, "invalid input");
    vcheck!(src, mine == theirs, "lemma: utf8_ok == std::str::from_utf8(..).is_ok()");
}

/// model lemma: the stub used for `core::str::count::count_chars` equals the real `Chars::count` (this harness runs
/// WITHOUT that stub)
pub fn lemma_count_chars<const N: usize, S: Src>(src: &mut S) {
    let (bytes, len) = vrt::draw_input::<N, S>(src, None);
    let s = vrt::as_input(src, &bytes, len);
    vcover!(src, len == N && bytes[0] >= 0x80, "multi-byte text");
    vcheck!(src, vrt::count_chars_model(s) == s.chars().count(), "lemma: count_chars_model == Chars::count");
}

// --------------------------------------------------------------------------------------------
// C11: PrettyParseError::from_parse_error

pub fn c11_pretty<const N: usize, S: Src>(src: &mut S) {
    let (bytes, len) = vrt::draw_input::<N, S>(src, Some(N));
    let pos = src.usize();
    let with_file = src.bool();
    let text = vrt::as_input(src, &bytes, len);
    src.assume(pos <= len);
    let pos = if pos <= len { pos } else { 0 };
    src.assume(vrt::is_boundary(&bytes[..len], pos));

    // specification, computed with plain byte loops
    let b = &bytes[..len];
    let mut line = 0usize;
    let mut ls = 0usize;
    let mut i = 0;
    while i < pos {
        if b[i] == b'\n' {
            line += 1;
            ls = i + 1;
        }
        i += 1;
    }
    let mut le = ls;
    while le < len && b[le] != b'\n' {
        le += 1;
    }
    let mut col = 0usize;
    let mut j = ls;
    while j < pos {
        if (b[j] & 0xC0) != 0x80 {
            col += 1;
        }
        j += 1;
    }

    vcover!(src, pos == len, "position at end of text");
    vcover!(src, pos > 0 && pos < len && b[pos - 1] == b'\n', "position at the start of a later line");
    vcover!(src, pos < len && b[pos] == b'\n', "position at the end of a line");
    vcover!(src, col > 0 && len > pos && b[ls] >= 0x80, "column after a multi-byte character");

    let before = vh::PRETTY_CALLS.load(Relaxed);
    let e = ParseError {
        position: pos,
        specifics: ParseErrorSpecifics::Other,
    };
    let p = PrettyParseError::from_parse_error(&e, text, if with_file { Some("f") } else { None });
    std::mem::forget(p);
    vcheck!(src, vh::PRETTY_CALLS.load(Relaxed) == before + 1, "C11: location computed exactly once");
    vcheck!(src, 
        vh::PRETTY_LINE_INDEX.load(Relaxed) == line,
        "C11: line = number of newlines before the position",
    );
    vcheck!(src, 
        vh::PRETTY_COLUMN_INDEX.load(Relaxed) == col,
        "C11: column = characters between line start and position",
    );
    vcheck!(src, 
        vh::PRETTY_LINE_START.load(Relaxed) == ls,
        "C11: printed line starts after the previous newline",
    );
    vcheck!(src, 
        vh::PRETTY_LINE_LEN.load(Relaxed) == le - ls,
        "C11: printed line ends at the next newline or the end of text",
    );
}

// --------------------------------------------------------------------------------------------
// terminal matchers (C01 U-part, C04 U-part)

/// A state at a symbolic boundary offset `p0` of the input (so start_index arithmetic is exercised).
#[inline(always)]
fn state_at<'a, S: Src>(src: &mut S, text: &'a str, p0: usize) -> ParseState<'a> {
    let _ = src;
    ParseState::new(text, &ParseSettings::default()).advance_safe(p0)
}

struct In<const N: usize> {
    bytes: [u8; N],
    len: usize,
    p0: usize,
}

#[inline(always)]
fn draw_in<const N: usize, S: Src>(src: &mut S) -> In<N> {
    let (bytes, len) = vrt::draw_input::<N, S>(src, None);
    let p0 = src.usize();
    In { bytes, len, p0 }
}

#[inline(always)]
fn constrain<'a, const N: usize, S: Src>(src: &mut S, i: &'a In<N>) -> (&'a str, usize) {
    let text = vrt::as_input(src, &i.bytes, i.len);
    src.assume(i.p0 <= i.len);
    let p0 = if i.p0 <= i.len { i.p0 } else { 0 };
    src.assume(vrt::is_boundary(&i.bytes[..i.len], p0));
    (text, p0)
}

/// What every matcher result must satisfy, given the specification `want` = Some(consumed) / None.
#[inline(always)]
fn judge<S: Src, T>(
    src: &mut S,
    b: &[u8],
    p0: usize,
    r: &ParseResult<T>,
    want: Option<usize>,
) {
    match (r, want) {
        (Ok(ok), Some(k)) => {
            vcheck!(src, ok.state.cache_key() == p0 + k, "matcher: consumed exactly the bytes of what matched");
            vcheck!(src, ok.state.s().len() == b.len() - p0 - k, "matcher: remaining input is the suffix");
            vcheck!(src, vrt::is_boundary(b, p0 + k), "C04: new offset is a character boundary");
        }
        (Err(e), None) => {
            vcheck!(src, e.position == p0, "matcher: failure reported at the entry offset");
        }
        (Ok(_), None) => vcheck!(src, false, "matcher accepted where the syntax reference says no match"),
        (Err(_), Some(_)) => vcheck!(src, false, "matcher rejected where the syntax reference says match"),
    }
}

pub fn m_char_literal<const N: usize, S: Src>(src: &mut S) {
    let i = draw_in::<N, S>(src);
    let c = src.char();
    let (text, p0) = constrain(src, &i);
    let b = &i.bytes[..i.len];
    let want = if p0 < b.len() {
        let (v, k) = vrt::decode_at(b, p0);
        if v == c as u32 {
            Some(k)
        } else {
            None
        }
    } else {
        None
    };
    vcover!(src, want.is_some() && !c.is_ascii(), "non-ASCII literal matched");
    vcover!(src, want.is_some() && c.is_ascii(), "ASCII literal matched");
    vcover!(src, want.is_none() && p0 < b.len() && !c.is_ascii() && b[p0] == (c as u32 as u8), "lead byte equals truncated code point, no match");
    let r = parse_character_literal(state_at(src, text, p0), c);
    if let Ok(ok) = &r {
        vcheck!(src, ok.result == c, "character literal yields the literal");
    }
    if let Err(e) = &r {
        vcheck!(src, matches!(e.specifics, ParseErrorSpecifics::ExpectedCharacter{c: x} if x == c), "error names the literal");
    }
    judge(src, b, p0, &r, want);
}

pub fn m_char_range<const N: usize, S: Src>(src: &mut S) {
    let i = draw_in::<N, S>(src);
    let from = src.char();
    let to = src.char();
    let (text, p0) = constrain(src, &i);
    let b = &i.bytes[..i.len];
    let mut got = 0u32;
    let want = if p0 < b.len() {
        let (v, k) = vrt::decode_at(b, p0);
        got = v;
        if from as u32 <= v && v <= to as u32 {
            Some(k)
        } else {
            None
        }
    } else {
        None
    };
    vcover!(src, want == Some(1) && from.is_ascii() && to.is_ascii(), "ASCII range matched");
    vcover!(src, want == Some(3), "3-byte character matched by a range");
    vcover!(src, want.is_some() && from.is_ascii() && !to.is_ascii(), "range straddling the ASCII boundary matched");
    vcover!(src, want.is_none() && p0 < b.len() && from.is_ascii() && to.is_ascii() && b[p0] >= 0x80, "non-ASCII input against ASCII range");
    let r = parse_character_range(state_at(src, text, p0), from, to);
    if let Ok(ok) = &r {
        vcheck!(src, ok.result as u32 == got, "range yields the character consumed");
    }
    judge(src, b, p0, &r, want);
}

pub fn m_any_char<const N: usize, S: Src>(src: &mut S) {
    let i = draw_in::<N, S>(src);
    let (text, p0) = constrain(src, &i);
    let b = &i.bytes[..i.len];
    let mut got = 0u32;
    let want = if p0 < b.len() {
        let (v, k) = vrt::decode_at(b, p0);
        got = v;
        Some(k)
    } else {
        None
    };
    vcover!(src, want == Some(4), "4-byte character");
    vcover!(src, want.is_none(), "end of input");
    let r = parse_char(state_at(src, text, p0), ());
    if let Ok(ok) = &r {
        vcheck!(src, ok.result as u32 == got, "char yields the character consumed");
    }
    judge(src, b, p0, &r, want);
}

pub fn m_eoi<const N: usize, S: Src>(src: &mut S) {
    let i = draw_in::<N, S>(src);
    let (text, p0) = constrain(src, &i);
    let b = &i.bytes[..i.len];
    let want = if p0 == b.len() { Some(0) } else { None };
    vcover!(src, want.is_some(), "at end");
    vcover!(src, want.is_none(), "not at end");
    let r = parse_end_of_input(state_at(src, text, p0));
    judge(src, b, p0, &r, want);
}

pub fn m_whitespace<const N: usize, S: Src>(src: &mut S) {
    let i = draw_in::<N, S>(src);
    let (text, p0) = constrain(src, &i);
    let b = &i.bytes[..i.len];
    let mut k = 0;
    while p0 + k < b.len() {
        let c = b[p0 + k];
        if c == 9 || c == 10 || c == 12 || c == 13 || c == 32 {
            k += 1;
        } else {
            break;
        }
    }
    vcover!(src, k >= 2, "two blanks skipped");
    vcover!(src, k == 0 && p0 < b.len() && b[p0] == 0x0B, "vertical tab is not whitespace");
    vcover!(src, k == 0 && p0 + 1 < b.len() && b[p0] == 0xC2 && b[p0 + 1] == 0xA0, "U+00A0 is not whitespace");
    let r = parse_Whitespace(state_at(src, text, p0), ());
    judge(src, b, p0, &r, Some(k));
}

/// Literal of 1..=L bytes of valid UTF-8, drawn as L bytes + length.
struct Lit<const L: usize> {
    bytes: [u8; L],
    len: usize,
}
#[inline(always)]
fn draw_lit<const L: usize, S: Src>(src: &mut S) -> Lit<L> {
    let (bytes, len) = vrt::draw_input::<L, S>(src, None);
    Lit { bytes, len }
}
#[inline(always)]
fn leak_lit<const L: usize, S: Src>(src: &mut S, l: &Lit<L>) -> &'static str {
    let ok = vrt::utf8_ok(&l.bytes, l.len);
    src.assume(ok);
    if !ok {
        return "";
    }
    let s: String = unsafe { String::from_utf8_unchecked(l.bytes[..l.len].to_vec()) };
    Box::leak(s.into_boxed_str())
}

pub fn m_string_literal<const N: usize, const L: usize, S: Src>(src: &mut S) {
    let i = draw_in::<N, S>(src);
    let l = draw_lit::<L, S>(src);
    let (text, p0) = constrain(src, &i);
    let lit = leak_lit(src, &l);
    let b = &i.bytes[..i.len];
    let mut m = p0 + l.len <= b.len();
    let mut k = 0;
    while m && k < l.len {
        if b[p0 + k] != l.bytes[k] {
            m = false;
        }
        k += 1;
    }
    let want = if m { Some(l.len) } else { None };
    vcover!(src, m && l.len == L, "full-length literal matched");
    vcover!(src, !m && l.len >= 2 && p0 + 1 <= b.len() && p0 < b.len() && b[p0] == l.bytes[0], "literal failed after its first byte matched");
    vcover!(src, m && l.len >= 2 && l.bytes[0] >= 0x80, "multi-byte literal matched");
    let r = parse_string_literal(state_at(src, text, p0), lit);
    judge(src, b, p0, &r, want);
}

#[inline(always)]
fn lower(c: u8) -> u8 {
    if c >= b'A' && c <= b'Z' {
        c + 32
    } else {
        c
    }
}

/// `ascii_only`: the literal is what the generator can emit (ASCII, lower-cased).  With
/// `ascii_only == false` the harness is the guard-necessity witness: it must FAIL, showing that the
/// compile-time rejection of non-ASCII insensitive literals is what keeps the matcher sound.
pub fn m_char_insensitive<const N: usize, S: Src>(src: &mut S, ascii_only: bool) {
    let i = draw_in::<N, S>(src);
    let c = src.char();
    let (text, p0) = constrain(src, &i);
    if ascii_only {
        src.assume(c.is_ascii() && lower(c as u8) == c as u8);
    }
    let b = &i.bytes[..i.len];
    let want = if ascii_only {
        if p0 < b.len() && lower(b[p0]) == c as u8 {
            Some(1)
        } else {
            None
        }
    } else if p0 < b.len() {
        let (v, k) = vrt::decode_at(b, p0);
        if v == c as u32 || (v < 0x80 && c.is_ascii() && lower(v as u8) == lower(c as u8)) {
            Some(k)
        } else {
            None
        }
    } else {
        None
    };
    vcover!(src, want.is_some() && p0 < b.len() && b[p0] != c as u32 as u8, "matched through case folding");
    vcover!(src, want.is_none() && p0 < b.len(), "no match");
    let r = parse_character_literal_insensitive(state_at(src, text, p0), c);
    judge(src, b, p0, &r, want);
}

pub fn m_string_insensitive<const N: usize, const L: usize, S: Src>(src: &mut S, ascii_only: bool) {
    let i = draw_in::<N, S>(src);
    let l = draw_lit::<L, S>(src);
    let (text, p0) = constrain(src, &i);
    let lit = leak_lit(src, &l);
    if ascii_only {
        let mut k = 0;
        while k < l.len {
            let c = l.bytes[k];
            src.assume(c < 0x80 && lower(c) == c);
            k += 1;
        }
    }
    let b = &i.bytes[..i.len];
    let mut m = p0 + l.len <= b.len();
    let mut k = 0;
    while m && k < l.len {
        if lower(b[p0 + k]) != l.bytes[k] {
            m = false;
        }
        k += 1;
    }
    // without the ASCII restriction a byte-wise match may end inside a character: then "no match"
    let want = if m && (ascii_only || vrt::is_boundary(b, p0 + l.len)) { Some(l.len) } else { None };
    vcover!(src, m && l.len == L, "full-length literal matched");
    vcover!(src, m && l.len >= 1 && b[p0] != l.bytes[0], "matched through case folding");
    let r = parse_string_literal_insensitive(state_at(src, text, p0), lit);
    judge(src, b, p0, &r, want);
}

// --------------------------------------------------------------------------------------------
// cursor helpers (C04 / C09 U-part)

pub fn m_cursor<const N: usize, S: Src>(src: &mut S) {
    let i = draw_in::<N, S>(src);
    let p1 = src.usize();
    let (text, p0) = constrain(src, &i);
    let b = &i.bytes[..i.len];
    src.assume(p1 <= b.len() - p0);
    let p1 = if p1 <= b.len() - p0 { p1 } else { 0 };
    src.assume(vrt::is_boundary(b, p0 + p1));
    vcover!(src, p0 > 0 && p1 > 1, "slice of two or more bytes at a non-zero offset");
    let a = state_at(src, text, p0);
    let c = a.clone().advance_safe(p1);
    let r = a.range_until(&c);
    vcheck!(src, r.start == p0 && r.end == p0 + p1, "range_until = [entry offset, exit offset)");
    let s = a.slice_until(&c);
    vcheck!(src, s.len() == p1, "slice_until has the consumed length");
    let mut k = 0;
    while k < p1 {
        vcheck!(src, s.as_bytes()[k] == b[p0 + k], "slice_until is the consumed text");
        k += 1;
    }
    vcheck!(src, c.is_further_than(&a) == (p1 > 0), "is_further_than is strict progress");
    vcheck!(src, c.cache_key() == p0 + p1, "cache key is the absolute offset");
    // unchecked advance with a boundary length behaves like the checked one
    let d = unsafe { a.clone().advance(p1) };
    vcheck!(src, d.cache_key() == p0 + p1 && d.s().len() == b.len() - p0 - p1, "advance == advance_safe on boundaries");
}

// --------------------------------------------------------------------------------------------
// error bookkeeping (C10 U-part): one step from an arbitrary state

fn spec(k: u8) -> ParseErrorSpecifics {
    match k & 3 {
        0 => ParseErrorSpecifics::ExpectedEoi,
        1 => ParseErrorSpecifics::ExpectedAnyCharacter,
        2 => ParseErrorSpecifics::NegativeLookaheadFailed,
        _ => ParseErrorSpecifics::Other,
    }
}
fn spec_id(s: &ParseErrorSpecifics) -> u8 {
    match s {
        ParseErrorSpecifics::ExpectedEoi => 0,
        ParseErrorSpecifics::ExpectedAnyCharacter => 1,
        ParseErrorSpecifics::NegativeLookaheadFailed => 2,
        ParseErrorSpecifics::Other => 3,
        _ => 9,
    }
}

pub fn e_record<const N: usize, S: Src>(src: &mut S) {
    let i = draw_in::<N, S>(src);
    let has_old = src.bool();
    let old_pos = src.usize();
    let old_k = src.u8();
    let new_pos = src.usize();
    let new_k = src.u8();
    let use_report = src.bool();
    let (text, p0) = constrain(src, &i);
    src.assume(old_pos <= N && new_pos <= N);
    src.assume(old_k < 3 && new_k < 3);
    let mut st = state_at(src, text, p0);
    if has_old {
        st = st.record_error(ParseError { position: old_pos, specifics: spec(old_k) });
    }
    vcover!(src, has_old && old_pos == new_pos && old_k != new_k, "tie between old and new");
    vcover!(src, has_old && old_pos > new_pos, "older error is further");
    let (e, np) = if use_report {
        // report_error records at the state's own offset
        (st.report_error(spec(new_k)), p0)
    } else {
        (st.record_error(ParseError { position: new_pos, specifics: spec(new_k) }).report_farthest_error(), new_pos)
    };
    // C10 asks for the furthest offset and for a detail naming SOME attempt that failed there; which of two
    // attempts at the same offset is named is not part of the property (the tree's "newer wins" is one valid choice)
    if has_old && old_pos > np {
        vcheck!(src, e.position == old_pos && spec_id(&e.specifics) == old_k, "C10: the furthest error is kept");
    } else if has_old && old_pos == np {
        vcheck!(src, e.position == np && (spec_id(&e.specifics) == new_k || spec_id(&e.specifics) == old_k), "C10: on a tie the detail names one of the attempts that failed at that offset");
    } else {
        vcheck!(src, e.position == np && spec_id(&e.specifics) == new_k, "C10: an error at a larger offset replaces");
    }
}

pub fn e_no_error<const N: usize, S: Src>(src: &mut S) {
    let i = draw_in::<N, S>(src);
    let (text, p0) = constrain(src, &i);
    vcover!(src, p0 > 0, "non-zero offset");
    let e = state_at(src, text, p0).report_farthest_error();
    vcheck!(src, e.position == p0, "without a recorded failure the state's own offset is reported");
}

fn alt<'a>(
    st: ParseState<'a>,
    idx: usize,
    ok: bool,
    a: usize,
    ep: usize,
    calls: &std::cell::Cell<[u8; 3]>,
    order: &std::cell::Cell<u8>,
) -> ParseResult<'a, u8> {
    let mut c = calls.get();
    order.set(order.get() + 1);
    c[idx] = order.get();
    calls.set(c);
    if ok {
        Ok(ParseOk { result: idx as u8, state: st.advance_safe(a) })
    } else {
        Err(st.record_error(ParseError { position: ep, specifics: spec(idx as u8) }).report_farthest_error())
    }
}

/// ChoiceHelper with three alternatives whose outcomes are symbolic.
pub fn e_choice<const N: usize, S: Src>(src: &mut S) {
    let i = draw_in::<N, S>(src);
    let mut okv = [false; 3];
    let mut adv = [0usize; 3];
    let mut epos = [0usize; 3];
    let mut k = 0;
    while k < 3 {
        okv[k] = src.bool();
        adv[k] = src.usize();
        epos[k] = src.usize();
        k += 1;
    }
    let (text, p0) = constrain(src, &i);
    let b = &i.bytes[..i.len];
    let mut k = 0;
    while k < 3 {
        src.assume(adv[k] <= b.len() - p0 && vrt::is_boundary(b, p0 + adv[k]));
        src.assume(epos[k] >= p0 && epos[k] <= b.len());
        k += 1;
    }
    let calls = std::cell::Cell::new([0u8; 3]);
    let order = std::cell::Cell::new(0u8);
    let r = ChoiceHelper::new(state_at(src, text, p0))
        .choice(|st| alt(st, 0, okv[0], adv[0], epos[0], &calls, &order))
        .choice(|st| alt(st, 1, okv[1], adv[1], epos[1], &calls, &order))
        .choice(|st| alt(st, 2, okv[2], adv[2], epos[2], &calls, &order))
        .end();
    let first = if okv[0] { Some(0) } else if okv[1] { Some(1) } else if okv[2] { Some(2) } else { None };
    let c = calls.get();
    vcover!(src, first == Some(1), "second alternative wins");
    vcover!(src, first.is_none(), "all alternatives fail");
    match (&r, first) {
        (Ok(ok), Some(w)) => {
            vcheck!(src, ok.result == w as u8, "ordered choice commits to the first alternative that matches");
            vcheck!(src, ok.state.cache_key() == p0 + adv[w], "result state is the winner's");
            let mut k = 0;
            while k < 3 {
                if k <= w {
                    vcheck!(src, c[k] == (k as u8) + 1, "alternatives are tried in order, each from the entry state");
                } else {
                    vcheck!(src, c[k] == 0, "no alternative is tried after one matched");
                }
                k += 1;
            }
        }
        (Err(e), None) => {
            let mut mx = epos[0];
            if epos[1] > mx { mx = epos[1]; }
            if epos[2] > mx { mx = epos[2]; }
            vcheck!(src, e.position == mx, "failed choice reports the furthest failure of its alternatives");
            // ties: any alternative that failed at that offset may be named
            let id = spec_id(&e.specifics) as usize;
            vcheck!(src, id < 3 && epos[id] == mx, "C10: the detail names an attempt that failed at the furthest offset");
        }
        _ => vcheck!(src, false, "choice result disagrees with first-match-wins"),
    }
}


// --------------------------------------------------------------------------------------------
// C20 U-part: the runtime matchers have no memory of earlier calls (two calls, both with symbolic parameters;
// the second result must still be what the syntax reference says)

pub fn h_two_insensitive_literals<const N: usize, const L: usize, S: Src>(src: &mut S) {
    let i1 = draw_in::<N, S>(src);
    let l1 = draw_lit::<L, S>(src);
    let i2 = draw_in::<N, S>(src);
    let l2 = draw_lit::<L, S>(src);
    let (t1, p1) = constrain(src, &i1);
    let (t2, p2) = constrain(src, &i2);
    let lit1 = leak_lit(src, &l1);
    let lit2 = leak_lit(src, &l2);
    let mut k = 0;
    while k < L {
        if k < l1.len { src.assume(l1.bytes[k] < 0x80 && lower(l1.bytes[k]) == l1.bytes[k]); }
        if k < l2.len { src.assume(l2.bytes[k] < 0x80 && lower(l2.bytes[k]) == l2.bytes[k]); }
        k += 1;
    }
    let first = parse_string_literal_insensitive(state_at(src, t1, p1), lit1);
    let b = &i2.bytes[..i2.len];
    let mut m = p2 + l2.len <= b.len();
    let mut k = 0;
    while m && k < l2.len {
        if lower(b[p2 + k]) != l2.bytes[k] { m = false; }
        k += 1;
    }
    let want = if m { Some(l2.len) } else { None };
    vcover!(src, first.is_ok() && l1.len >= 2 && l1.bytes[0] < b'a' && m && l2.len >= 2 && b[p2] != l2.bytes[0], "letterless literal first, then a match through case folding");
    vcover!(src, first.is_err() && !m, "both fail");
    let r = parse_string_literal_insensitive(state_at(src, t2, p2), lit2);
    judge(src, b, p2, &r, want);
    std::mem::forget(first);
}

pub fn h_two_whitespace_ranges<const N: usize, S: Src>(src: &mut S) {
    let i1 = draw_in::<N, S>(src);
    let i2 = draw_in::<N, S>(src);
    let from = src.char();
    let to = src.char();
    let (t1, p1) = constrain(src, &i1);
    let (t2, p2) = constrain(src, &i2);
    let _ = parse_Whitespace(state_at(src, t1, p1), ());
    let _ = parse_character_range(state_at(src, t1, p1), from, to);
    let b = &i2.bytes[..i2.len];
    let mut k = 0;
    while p2 + k < b.len() {
        let c = b[p2 + k];
        if c == 9 || c == 10 || c == 12 || c == 13 || c == 32 { k += 1; } else { break; }
    }
    vcover!(src, k >= 1 && i1.len == i2.len, "second input of the same length starts with blanks");
    let r = parse_Whitespace(state_at(src, t2, p2), ());
    judge(src, b, p2, &r, Some(k));
    let want2 = if p2 < b.len() { let (v, n) = vrt::decode_at(b, p2); if from as u32 <= v && v <= to as u32 { Some(n) } else { None } } else { None };
    let r2 = parse_character_range(state_at(src, t2, p2), from, to);
    judge(src, b, p2, &r2, want2);
}
